"""Shared harness for convert_variable histories (C06, C18): generated models with exact unit vectors, reification
of a real cellmlmanip Model into the Coq model's input, numeric evaluation of a model's equations."""
import math
import random
from fractions import Fraction

import bridge
import vlib

FN = 60

# unit pool: name -> (definition for add_unit or None for built-ins, exponent vector {generator: Fraction})
# generators: primes 2,3,5 for the scale;  -1 metre, -2 kilogram, -3 second, -4 ampere
POOL = {
    'second': (None, {-3: 1}),
    'ms': ('second * 0.001', {2: -3, 5: -3, -3: 1}),
    'minute': ('second * 60', {2: 2, 3: 1, 5: 1, -3: 1}),
    'volt': (None, {-2: 1, -1: 2, -3: -3, -4: -1}),
    'mV': ('volt * 0.001', {2: -3, 5: -3, -2: 1, -1: 2, -3: -3, -4: -1}),
    'uV': ('volt * 1e-6', {2: -6, 5: -6, -2: 1, -1: 2, -3: -3, -4: -1}),
    # three spellings of ONE unit whose floating-point scale ratios are 1 +- one ulp (0.9999999999999999, 1.0000000000000002):
    # converting between them must be recognised as "nothing to do"
    'nV': ('volt * 1e-9', {2: -9, 5: -9, -2: 1, -1: 2, -3: -3, -4: -1}),
    'nV_b': ('volt / 1e9', {2: -9, 5: -9, -2: 1, -1: 2, -3: -3, -4: -1}),
    'nV_c': ('uV * 0.001', {2: -9, 5: -9, -2: 1, -1: 2, -3: -3, -4: -1}),
    'hour': ('second * 3600', {2: 4, 3: 2, 5: 2, -3: 1}),
    'us': ('second * 1e-6', {2: -6, 5: -6, -3: 1}),
    'mm': ('metre * 0.001', {2: -3, 5: -3, -1: 1}),
    'km': ('metre * 1000', {2: 3, 5: 3, -1: 1}),
    'ppm': ('dimensionless * 1e-6', {2: -6, 5: -6}),
    'dimensionless': (None, {}),
    'pc': ('dimensionless * 0.01', {2: -2, 5: -2}),
    'metre': (None, {-1: 1}),
    'cm': ('metre * 0.01', {2: -2, 5: -2, -1: 1}),
}
FAMILIES = [['second', 'ms', 'minute', 'hour', 'us'], ['volt', 'mV', 'uV', 'nV', 'nV_b', 'nV_c'], ['dimensionless', 'pc', 'ppm'],
            ['metre', 'cm', 'mm', 'km']]
TIME_UNITS = ['second', 'ms', 'minute', 'hour', 'us']
GEN_NAMES = {-1: 'meter', -2: 'kilogram', -3: 'second', -4: 'ampere', -5: 'kelvin', -6: 'mole', -7: 'candela', -8: 'radian'}
NAME_GENS = {v: k for k, v in GEN_NAMES.items()}


def vmul(a, b, sign=1):
    out = dict(a)
    for k, e in b.items():
        out[k] = out.get(k, 0) + sign * Fraction(e)
    return {k: Fraction(e) for k, e in out.items() if e != 0}


def vscale(v):
    x = 1.0
    for k, e in v.items():
        if k > 0:
            x *= float(k) ** float(e)
    return x


def vec_sexp(v):
    return [[k, Fraction(e)] for k, e in sorted(v.items())]


def factor_small(fr):
    """Fraction -> {prime: exponent} over 2, 3, 5, 7 or None"""
    out = {}
    for part, sign in ((fr.numerator, 1), (fr.denominator, -1)):
        n = part
        for p in (2, 3, 5, 7):
            while n % p == 0 and n > 1:
                out[p] = out.get(p, 0) + sign
                n //= p
        if n != 1:
            return None
    return out


def vec_of_unit(model, unit):
    """exact exponent vector of a pint unit of this model (pool-derived units only); None if not recognisable"""
    text = model.units.format(unit, base_units=True)
    from props.c07 import parse_base
    sc, dims = parse_base(text)
    fr = Fraction(sc).limit_denominator(10 ** 15)
    if not math.isclose(float(fr), sc, rel_tol=1e-12):
        return None
    v = factor_small(fr)
    if v is None:
        return None
    out = {k: Fraction(e) for k, e in v.items()}
    for n, e in dims.items():
        if n not in NAME_GENS:
            return None
        out[NAME_GENS[n]] = Fraction(e).limit_denominator(1000)
    return out


# ---- generated models ----------------------------------------------------------------------------------------
def resolve_index(vi, objs, prev):
    """index of the variable a conversion refers to: a number (modulo the current count), or 'prev' = the variable the
    previous conversion returned (the first variable when there is none)"""
    if vi == 'prev':
        for k, o in enumerate(objs):
            if o is prev:
                return k
        return 0
    return vi % len(objs)


def gen_spec(seed):
    """a unit-consistent model: time, states with ODEs, input constants (initial value, no equation), parameter constants
    (c = quantity), computed variables; right-hand sides are sums of products k * v (* w), optionally exp of a
    dimensionless product and derivative atoms"""
    rng = random.Random(seed)
    tunit = rng.choice(TIME_UNITS)
    vs = [{'name': 'env$time', 'unit': tunit, 'init': None, 'cmeta': rng.choice([None, 'time']), 'kind': 'time'}]
    nstate = rng.randint(1, 3)
    for i in range(nstate):
        vs.append({'name': 'c$s%d' % i, 'unit': rng.choice(rng.choice(FAMILIES)), 'init': rng.choice(['1', '0.5', '-2', '0', '3', '1.23456789e-7', '-3.75e-10', '4.5e-5']),
                   'cmeta': rng.choice([None, 's%d_id' % i]), 'kind': 'state'})
    for i in range(rng.randint(0, 2)):
        vs.append({'name': 'c$in%d' % i, 'unit': rng.choice(rng.choice(FAMILIES)), 'init': rng.choice(['2', '0.25', '10']),
                   'cmeta': rng.choice([None, 'in%d_id' % i]), 'kind': 'input'})
    for i in range(rng.randint(0, 2)):
        vs.append({'name': 'c$p%d' % i, 'unit': rng.choice(rng.choice(FAMILIES)), 'init': None,
                   'cmeta': rng.choice([None, 'p%d_id' % i]), 'kind': 'param', 'value': rng.choice(['2', '0.5', '4'])})
    ncomp = rng.randint(1, 3)
    for i in range(ncomp):
        vs.append({'name': 'c$y%d' % i, 'unit': rng.choice(rng.choice(FAMILIES)), 'init': None,
                   'cmeta': rng.choice([None, 'y%d_id' % i]), 'kind': 'computed'})
    idx = {v['name']: i for i, v in enumerate(vs)}
    eqs = []

    def term(target_unit_vec, allowed, allow_deriv, not_state=None):
        """('term', k value, factors [var index or ('d', y)]) with unit(k) making the product have the target unit"""
        r = rng.random()
        facs = []
        dstates = [i for i, v in enumerate(vs) if v['kind'] == 'state' and i != not_state]
        if r < 0.15 and allow_deriv and dstates:
            facs.append(('d', rng.choice(dstates)))
        else:
            facs.append(rng.choice(allowed))
            if rng.random() < 0.25:
                facs.append(rng.choice(allowed))
        return {'k': rng.choice(['2', '0.5', '3', '-1', '1.5']), 'facs': facs, 'exp': rng.random() < 0.12}
    order = [i for i, v in enumerate(vs) if v['kind'] in ('computed',)]
    base_allowed = [i for i, v in enumerate(vs) if v['kind'] in ('state', 'input', 'param', 'time')]
    for pos, i in enumerate(order):
        allowed = base_allowed + order[:pos]
        eqs.append({'lhs': ('v', i), 'terms': [term(None, allowed, True) for _ in range(rng.randint(1, 3))]})
    for i, v in enumerate(vs):
        if v['kind'] == 'state':
            allowed = base_allowed + order
            # the derivative of ANOTHER state may appear on the right-hand side of an ODE
            eqs.append({'lhs': ('d', i), 'terms': [term(None, allowed, True, not_state=i) for _ in range(rng.randint(1, 2))]})
        elif v['kind'] == 'param':
            eqs.append({'lhs': ('v', i), 'const': v['value']})
    # some definitions are written in ANOTHER unit of the variable's dimension (a variable declared in mV, defined by an
    # expression in volt): conversions treat the defining expression as the plain number it is
    for e in eqs:
        if e['lhs'][0] == 'v' and rng.random() < 0.25:
            fam = [f for f in FAMILIES if vs[e['lhs'][1]]['unit'] in f][0]
            e['rhs_unit'] = rng.choice(fam)
    rng.shuffle(eqs)
    return {'seed': seed, 'vars': vs, 'eqs': eqs}


def build_model(spec):
    """spec -> (cellmlmanip Model, list of Variable objects)"""
    import sympy
    import cellmlmanip.model as M
    m = M.Model('m')
    for n, (d, _) in POOL.items():
        if d is not None:
            m.units.add_unit(n, d)
    objs = []
    for v in spec['vars']:
        objs.append(m.add_variable(v['name'], v['unit'], initial_value=None if v['init'] is None else float(Fraction(v['init'])),
                                   cmeta_id=v['cmeta']))
    t = objs[0]
    U = lambda n: m.units.get_unit(n)
    for e in spec['eqs']:
        kind, i = e['lhs']
        lhs_unit = U(spec['vars'][i]['unit'])
        if kind == 'd':
            lhs = sympy.Derivative(objs[i], t)
            lhs_unit = lhs_unit / U(spec['vars'][0]['unit'])
        else:
            lhs = objs[i]
            if e.get('rhs_unit'):
                lhs_unit = U(e['rhs_unit'])
        if 'const' in e:
            rhs = m.create_quantity(float(Fraction(e['const'])), lhs_unit)
        else:
            rhs = 0
            for tm in e['terms']:
                prod = 1
                punit = None
                for f in tm['facs']:
                    if isinstance(f, tuple) or isinstance(f, list):
                        y = f[1]
                        prod = prod * sympy.Derivative(objs[y], t)
                        fu = U(spec['vars'][y]['unit']) / U(spec['vars'][0]['unit'])
                    else:
                        prod = prod * objs[f]
                        fu = U(spec['vars'][f]['unit'])
                    punit = fu if punit is None else punit * fu
                if tm['exp']:
                    # k1 [lhs unit] * exp(k2 [1/punit] * prod)
                    k2 = m.create_quantity(0.5, punit ** -1)
                    k1 = m.create_quantity(float(Fraction(tm['k'])), lhs_unit)
                    rhs = rhs + k1 * sympy.exp(k2 * prod)
                else:
                    k = m.create_quantity(float(Fraction(tm['k'])), lhs_unit / punit)
                    rhs = rhs + k * prod
        m.add_equation(sympy.Eq(lhs, rhs))
    return m, objs


class Reified(object):
    """the current content of a Model as plain data (the Coq model's state format)"""

    def __init__(self, model, objs):
        self.model = model
        self.objs = list(objs)
        for v in model.variables():
            if not any(v is o for o in self.objs):
                self.objs.append(v)
        self.units = []        # list of (pint unit, vector)
        self.bad_units = []    # quantities whose units are not unit objects (C18)
        self.rf = bridge.Reifier(self.var_index, self.unit_index)
        self.vars = []
        for v in self.objs:
            vec = vec_of_unit(model, v.units)
            self.vars.append([v.name, vec, None if v.initial_value is None else Fraction(v.initial_value), v.cmeta_id])
        self.eqs = []
        for eq in model.equations:
            lhs = eq.lhs
            l = [1, self.var_index(lhs.args[0]), self.var_index(lhs.args[1][0])] if lhs.is_Derivative else [0, self.var_index(lhs)]
            self.eqs.append([l, self.rf.reify(eq.rhs)])

    def var_index(self, v):
        for i, o in enumerate(self.objs):
            if o is v:
                return i
        self.objs.append(v)
        return len(self.objs) - 1

    def unit_index(self, u):
        if not isinstance(u, self.model.units.Unit):
            self.bad_units.append(repr(u))
            return -1 if isinstance(u, str) else -2
        for i, (pu, vec) in enumerate(self.units):
            if pu == u:
                return i
        self.units.append((u, vec_of_unit(self.model, u)))
        return len(self.units) - 1

    def sexp(self, ops):
        vs = [[n, vec_sexp(vec or {}), [] if i is None else [i], [] if c is None else [c]] for n, vec, i, c in self.vars]
        us = [vec_sexp(vec or {}) for _, vec in self.units]
        qn = len(self.rf.qobjs)
        return [vs, self.eqs, us, qn, ops]


def decode_state(st):
    vs = []
    for n, vec, init, cm in st[0]:
        vs.append([vlib.sexp_str(n), {k: Fraction(a, b) for k, (a, b) in vec},
                   Fraction(init[0][0], init[0][1]) if init else None, vlib.sexp_str(cm[0]) if cm else None])
    eqs = [[list(l), fix_tree(t)] for l, t in st[1]]
    return vs, eqs


def fix_tree(t):
    """model output sexp -> bridge tree (rationals as Fractions)"""
    k = t[0]
    if k == 0:
        return [0, t[1], Fraction(t[2][0], t[2][1])]
    if k == 2:
        return [2, t[1], Fraction(t[2][0], t[2][1]), t[3]]
    if k in (1, 3, 11, 12):
        return list(t)
    if k in (4, 5):
        return [k] + [fix_tree(a) for a in t[1:]]
    if k == 6:
        return [6, fix_tree(t[1]), fix_tree(t[2])]
    if k in (7, 10):
        return [k, t[1]] + [fix_tree(a) for a in t[2:]]
    if k == 8:
        return [8, fix_tree(t[1]), fix_tree(t[2]), t[3]]
    if k == 9:
        return [9, t[1], fix_tree(t[2]), fix_tree(t[3])]
    if k == 13:
        return [13] + [[fix_tree(a), fix_tree(b)] for a, b in t[1:]]
    return list(t)


def tree_atoms(t, out=None):
    """(variables, derivative atoms) referenced by a tree"""
    out = out if out is not None else (set(), set())
    k = t[0]
    if k == 3:
        out[0].add(t[1])
    elif k == 8:
        out[1].add((t[1][1], t[2][1]))
    elif k in (4, 5):
        for a in t[1:]:
            tree_atoms(a, out)
    elif k == 6:
        tree_atoms(t[1], out)
        tree_atoms(t[2], out)
    elif k in (7, 10):
        for a in t[2:]:
            tree_atoms(a, out)
    elif k == 9:
        tree_atoms(t[2], out)
        tree_atoms(t[3], out)
    elif k == 13:
        for a, b in t[1:]:
            tree_atoms(a, out)
            tree_atoms(b, out)
    return out


def same_rhs(t1, t2, nvars, seed):
    """semantic comparison of two right-hand sides: same referenced atoms and equal values at 3 random points"""
    a1, a2 = tree_atoms(t1), tree_atoms(t2)
    if a1 != a2:
        return 'reference different atoms: %r vs %r' % (a1, a2)
    rng = random.Random(seed)
    for _ in range(3):
        vals = {i: rng.uniform(0.5, 2.0) for i in range(nvars + 5)}
        dv = {}

        def dfun(y, t):
            if (y, t) not in dv:
                dv[(y, t)] = random.Random(hash((y, t, seed))).uniform(0.5, 2.0)
            return dv[(y, t)]
        try:
            x1 = bridge.eval_tree(t1, lambda i: vals[i], None, dfun)
            x2 = bridge.eval_tree(t2, lambda i: vals[i], None, dfun)
        except bridge.Undefined:
            continue
        if not math.isclose(x1, x2, rel_tol=1e-9, abs_tol=1e-12):
            return 'evaluate differently: %r vs %r' % (x1, x2)
    return None


def evaluate_model(reif, independents):
    """numeric solution of a reified model: independents = {var index: value}; returns (values, derivative values)
    by repeated passes over the equations (variables in their own units)"""
    vals = dict(independents)
    dvals = {}
    pending = list(reif.eqs)
    for _ in range(len(pending) + 2):
        rest = []
        for l, t in pending:
            vs, ds = tree_atoms(t)
            if all(v in vals for v in vs) and all(d in dvals for d in ds):
                try:
                    x = bridge.eval_tree(t, lambda i: vals[i], None, lambda y, tt: dvals[(y, tt)])
                except (bridge.Undefined, OverflowError):
                    return None
                if l[0] == 0:
                    vals[l[1]] = x
                else:
                    dvals[(l[1], l[2])] = x
            else:
                rest.append((l, t))
        if not rest:
            return vals, dvals
        if len(rest) == len(pending):
            return None
        pending = rest
    return None

# ---- coherence of the model after convert_variable (shared by the C08 and C13 checks: "unit conversion" is one of the
# edits both properties quantify over; ModelSM has no such operation, so this part is an oracle on the implementation) ----
BQ_IS = ('http://biomodels.net/biology-qualifiers/', 'is')
TERM_NS = 'http://example.org/term#'


def conversion_coherence(case):
    """-> list of (property, what, detail): after every conversion of the history (a) every query answers as a freshly
    built model with the same variables and equations (C08), (b) ids are unique and every look-up by id / ontology term
    returns the live carrier (C13).  Look-ups are also made BEFORE each conversion, so that caches are populated."""
    import sympy
    import cellmlmanip.model as M
    from cellmlmanip.model import DataDirectionFlow
    from cellmlmanip.rdf import create_rdf_node
    from props import c06, c08
    bad = []
    try:
        m, objs = build_model(case['spec'])
    except Exception as e:
        return [('harness', repr(e), {})]
    terms = {}
    for k, v in enumerate(objs):
        if v.cmeta_id is not None:
            terms[v.cmeta_id] = 't%d' % k
            m.add_rdf('<rdf:RDF xmlns:rdf="http://www.w3.org/1999/02/22-rdf-syntax-ns#" xmlns:bqbiol="%s">'
                      '<rdf:Description rdf:about="#%s"><bqbiol:is rdf:resource="%s%s"/></rdf:Description></rdf:RDF>'
                      % (BQ_IS[0], v.cmeta_id, TERM_NS, terms[v.cmeta_id])) if False else \
                m.rdf.add((create_rdf_node('#' + v.cmeta_id), create_rdf_node(BQ_IS), create_rdf_node((TERM_NS, terms[v.cmeta_id]))))

    def lookups(j):
        ids = {}
        for v in m.variables():
            c = v.cmeta_id
            if c is None:
                continue
            if c in ids:
                bad.append(('C13', 'after conversion %d two variables carry the cmeta id %r: %s and %s' % (j, c, ids[c].name, v.name),
                            {'conv': j}))
            ids[c] = v
        for c, term in terms.items():
            want = ids.get(c)
            for how, f in (('get_variable_by_cmeta_id(%r)' % c, lambda: m.get_variable_by_cmeta_id(c)),
                           ('get_variable_by_ontology_term(%s)' % term, lambda: m.get_variable_by_ontology_term((TERM_NS, term))),
                           ('get_variables_by_rdf(is, %s)' % term, lambda: m.get_variables_by_rdf(BQ_IS, (TERM_NS, term)))):
                try:
                    got = f()
                except Exception as e:
                    bad.append(('C13', 'after conversion %d %s raises %r although %s carries the id'
                                % (j, how, e, getattr(want, 'name', None)), {'conv': j}))
                    continue
                got = got[0] if isinstance(got, list) and len(got) == 1 else got
                if got is not want:
                    bad.append(('C13', 'after conversion %d %s returns %s (cmeta id %r), but the id is carried by %s'
                                % (j, how, getattr(got, 'name', got), getattr(got, 'cmeta_id', None), getattr(want, 'name', None)),
                                {'conv': j}))
    lookups(-1)
    cur = list(objs)
    prev_new = None
    for j, (vi, ui, is_input, move) in enumerate(case['convs']):
        reif = Reified(m, cur)
        v = resolve_index(vi, cur, prev_new)
        vec = reif.vars[v][1]
        fam = c06.family_of(vec) if vec is not None else None
        if not fam:
            break
        target = m.units.get_unit(fam[ui % len(fam)])
        lookups(j - 0.5)
        before = (c08.obs(m), [[x.name, x.initial_value, x.cmeta_id, str(x.units)] for x in m.variables()])
        try:
            prev_new = m.convert_variable(cur[v], target, DataDirectionFlow.INPUT if is_input else DataDirectionFlow.OUTPUT,
                                          move_annotations=bool(move))
        except Exception as e:
            # a conversion that raises is a rejected edit: it must leave every observable as it was
            after = (c08.obs(m), [[x.name, x.initial_value, x.cmeta_id, str(x.units)] for x in m.variables()])
            if after != before:
                diff = [k for k in before[0] if before[0][k] != after[0].get(k)] or ['variables']
                bad.append(('C08', 'conversion %d (convert_variable(%s, %s)) raised %r and left the model changed: %s'
                            % (j, cur[v].name, target, e, ', '.join(diff)), {'conv': j, 'differs': diff}))
            break
        cur = Reified(m, cur).objs
        lookups(j)
        # (a) fresh model with the same content
        f = M.Model('m')
        mp = {}
        try:
            for x in m.variables():
                mp[x] = f.add_variable(x.name, 'dimensionless', initial_value=x.initial_value, cmeta_id=x.cmeta_id)
            for eq in m.equations:
                f.add_equation(sympy.Eq(eq.lhs.xreplace(mp), eq.rhs.xreplace(mp), evaluate=False))
        except Exception as e:
            bad.append(('C08', 'after conversion %d a fresh model cannot be built from the current variables and equations: %r'
                        % (j, e), {'conv': j}))
            continue
        fo, co = c08.obs(f), c08.obs(m)
        if fo != co:
            diff = [k for k in fo if fo[k] != co[k]]
            bad.append(('C08', 'after conversion %d (convert_variable) the model answers differently from a freshly built model '
                        'with the same variables and equations: %s (current %r, fresh %r)'
                        % (j, ', '.join(diff), co[diff[0]], fo[diff[0]]), {'conv': j, 'differs': diff}))
        # C10: the ORDER of states / derivatives / derived quantities is the order of introduction of the variables, as in a
        # freshly built model with the same variables and equations
        for what, fn in (('get_state_variables', lambda mm: [x.name for x in mm.get_state_variables()]),
                         ('get_derivatives', lambda mm: [str(x) for x in mm.get_derivatives()]),
                         ('get_derived_quantities', lambda mm: [x.name for x in mm.get_derived_quantities()])):
            try:
                a, b = fn(m), fn(f)
            except Exception:
                continue
            if sorted(a) == sorted(b) and a != b:
                bad.append(('C10', 'after conversion %d %s is %s, but %s (order of introduction) in a freshly built model with '
                            'the same variables and equations' % (j, what, a, b), {'conv': j}))
        # C10: get_value of every variable does not depend on how the model was reached
        for x in m.variables():
            def gv(mm, xx):
                try:
                    return round(float(mm.get_value(xx)), 9)
                except Exception:
                    return 'raises'      # which exception comes first depends on set iteration order
            a, b = gv(m, x), gv(f, mp[x])
            if a != b and not (isinstance(a, float) and isinstance(b, float) and abs(a - b) <= 1e-9 * (1 + abs(a))):
                bad.append(('C10', 'after conversion %d get_value(%s) is %r, but %r in a freshly built model with the same variables '
                            'and equations' % (j, x.name, a, b), {'conv': j}))
                break
        if len(bad) > 4:
            break
    return bad
