#!/bin/bash
# Re-evaluates every stored seeded change against the current checks: scratch worktree of /repo HEAD, apply the stored patch,
# run the property's quick check on it (no test suite / demo: those were confirmed when the seed was stored).
# usage: tools/seed_sweep_fast.sh [parallel jobs]     Output: build/seed_sweep.log, one line per seed
cd "$(dirname "$0")/.." || exit 2
J=${1:-4}
OUT=build/seed_sweep.log
: > $OUT
one() {
  n=$1; p=${n%%-*}
  if grep -q '"status": "obsolete' seeded/$n/meta.json 2>/dev/null; then echo "$n OBSOLETE"; return; fi
  WT=/tmp/wt_sweep_$n
  git -C /repo worktree add -q $WT HEAD 2>/dev/null || { echo "$n WORKTREE-ERROR"; return; }
  if ! git -C $WT apply /verif/seeded/$n/patch.diff 2>/dev/null; then
    git -C /repo worktree remove --force $WT; echo "$n NOAPPLY"; return
  fi
  res=$(PYTHONPATH=$WT:/verif/tools VERIF_REPO=$WT PYTHONHASHSEED=0 VERIF_JOBS=4 /venv/bin/python -W ignore tools/check.py $p quick 2>&1 | grep -E "^VIOLATION" | head -1)
  git -C /repo worktree remove --force $WT
  if [ -z "$res" ]; then echo "$n MISSED"; elif echo "$res" | grep -q no-failing; then echo "$n TIE-ONLY"; else echo "$n CAUGHT"; fi
}
export -f one
ls seeded | grep -v SWEEP | grep -E "${FILTER:-.}" | xargs -P $J -I{} bash -c 'one {}' >> $OUT
sort -V $OUT -o $OUT
awk '{c[$2]++} END{for(k in c) print k, c[k]}' $OUT
