#!/bin/bash
# Independent re-check of every compiled property file with coqchk (and everything it depends on); lists the axioms.
# usage: tools/coqchk_all.sh   (after setup.sh; takes several minutes; writes evidence/coqchk.txt)
cd "$(dirname "$0")/../coq" || exit 2
OUT=../evidence/coqchk.txt
: > $OUT
ARGS=$(grep -v '\.v$' _CoqProject | tr '\n' ' ')
ls Props/C*.v | sed 's#Props/\(C[0-9]*\)\.v#\1#' | xargs -P 6 -I{} sh -c "timeout 3000 coqchk -silent -o $ARGS Verif.{} > ../build/coqchk_{}.log 2>&1; echo {} exit \$?"
for f in ../build/coqchk_C*.log; do echo "== $(basename $f .log)" >> $OUT; cat $f >> $OUT; done
grep -c "Modules were successfully checked" $OUT
