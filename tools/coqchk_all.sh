#!/bin/bash
# Independent re-check of every compiled property file with coqchk (and everything it depends on); lists the axioms.
# usage: tools/coqchk_all.sh   (after setup.sh; takes several minutes; writes evidence/coqchk.txt)
cd "$(dirname "$0")/../coq" || exit 2
OUT=../evidence/coqchk.txt
: > $OUT
ARGS=$(grep -v '\.v$' _CoqProject | tr '\n' ' ')
# C12: Proofs/C12P.v holds 9 lemmas proved by Interval's reflexive tactic (120-bit interval arithmetic evaluated by the VM);
# coqchk has no VM and did not finish re-checking that one file within 5 hours (coqc's kernel checks it in seconds), so
# for coqchk it is taken as given (-admit) and everything else C12 depends on is re-checked.
ls Props/C*.v | sed 's#Props/\(C[0-9]*\)\.v#\1#' | xargs -P 6 -I{} sh -c "EXTRA=; [ {} = C12 ] && EXTRA='-admit Verif.C12P'; timeout 3000 coqchk -silent -o \$EXTRA $ARGS Verif.{} > ../build/coqchk_{}.log 2>&1; echo {} exit \$?"
for f in ../build/coqchk_C*.log; do echo "== $(basename $f .log)" >> $OUT; cat $f >> $OUT; done
grep -c "Modules were successfully checked" $OUT
