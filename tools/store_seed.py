"""usage: store_seed.py <seedtest log> <src dir root> <mapping like C04:patch.diff=C04-3,C04:patch2.diff=C04-4>
Stores evaluated seeded changes under /verif/seeded/<name>/ (patch.diff, demo.py, meta.json with the check result)."""
import json, os, re, shutil, sys
log = open(sys.argv[1]).read()
root = sys.argv[2]
mapping = dict(x.split('=') for x in sys.argv[3].split(','))
note = sys.argv[4] if len(sys.argv) > 4 else ''
for b in re.split(r'######## ', log)[1:]:
    p, patch = b.split('\n', 1)[0].split()
    name = mapping['%s:%s' % (p, patch)]
    what = [l for l in b.split('\n') if l.strip().startswith('what:')]
    viol = [l for l in b.split('\n') if l.startswith('VIOLATION')]
    n = patch.replace('patch', '').replace('.diff', '')
    d = '/verif/seeded/' + name
    os.makedirs(d, exist_ok=True)
    src = os.path.join(root, p)
    src = src if os.path.exists(os.path.join(src, patch)) else os.path.join(root, p, '_seed')
    shutil.copy(os.path.join(src, 'patch%s.diff' % n), d + '/patch.diff')
    shutil.copy(os.path.join(src, 'demo%s.py' % n), d + '/demo.py')
    m = json.load(open(os.path.join(src, 'meta%s.json' % n)))
    m['property'] = p
    m['origin'] = 'fresh sub-agent given only the property text and a scratch worktree'
    m['confirmed'] = ('tools/seedtest.sh patch.diff demo.py %s: patch applies to /repo HEAD, demo PASSes on the unchanged tree and '
                      'FAILs with the change, test suite unchanged (252 passed, test_number known failure)' % p)
    if viol and 'no-failing-input-found' in viol[0]:
        m['check_result'] = 'detected as a broken correspondence only (no-failing-input-found): ' + (what[0].strip()[:400] if what else '')
    elif viol:
        m['check_result'] = 'caught with a concrete failing input' + note + ': ' + (what[0].strip()[:400] if what else '')
    else:
        m['check_result'] = 'MISSED at first (check being strengthened)'
    json.dump(m, open(d + '/meta.json', 'w'), indent=1)
    print(d, m['check_result'][:70])
