"""Shared harness for the Model state machine (coq/Model/ModelSM.v): C08, C09, C10, C13.

A case = {'seed', 'mcmeta', 'base': [[name, cmeta|None, init|None], ...], 'pool': [eq spec, ...], 'ops': [...]}
  eq spec = {'lhs': ['v', i] | ['d', y, t, order] | ['d2', y, t, u] | ['o', tree] | ['s', i, dummy?], 'rhs': tree}   (trees: tools/bridge.py format,
            variable leaves index the base variables; quantity leaves [2, id, Fraction, 0])
  ops: ['addvar', name, cmeta|None, init|None]  ['rmvar', v]  ['addeq', e, check]  ['rmeq', e]  ['addcmeta', v]
       ['transfer', a, b]  ['triple', v-or-id-string, p, o]
       ['q_eqs'] ['q_def', v] ['q_states'] ['q_graph'] ['q_ngraph'] ['q_vars'] ['q_free'] ['q_const', v] ['q_derivs']
       ['q_derived'] ['q_eqsfor', [refs], recurse, strip] ['q_bycmeta', id] ['q_byrdf', p, o] ['q_hascmeta', id]
       ['q_cmeta', v] ['q_annot', v]
  variable indices = creation order of Variable objects (base variables first).
"""
import math
import random
from fractions import Fraction

import vlib
from bridge import reflect

FN = 80
PRED_NS = 'http://example.org/p#'
OBJ_NS = 'http://example.org/o#'


def pred(i):
    """predicate 0 is bqbiol:is (the one get_variable_by_ontology_term looks for), the others are arbitrary"""
    return ('http://biomodels.net/biology-qualifiers/', 'is') if i == 0 else (PRED_NS, 'p%d' % i)


def pred_index(uri):
    u = str(uri)
    return 0 if u.endswith('biology-qualifiers/is') else int(u.split('#p')[-1])

# AssertionError and AttributeError both mean 'the equations do not form a graph' (which one fires first depends on
# Python set iteration order inside Model.graph), so they are one class
ERR_CODES = {'ValueError': 1, 'KeyError': 2, 'AssertionError': 3, 'AttributeError': 3}


def errcode(e):
    import networkx as nx
    if isinstance(e, nx.NetworkXUnfeasible):
        return 5
    if isinstance(e, nx.NetworkXError):
        return 6
    c = vlib.err_class(e)
    return ERR_CODES.get(c, c)


# ------------------------------------------------------------------------------------------------
def fix_tree(t):
    """replay files store Fractions as strings: restore them"""
    if not isinstance(t, list):
        return t
    if t and t[0] == 0 and len(t) == 3:
        return [0, t[1], Fraction(t[2])]
    if t and t[0] == 2 and len(t) == 4:
        return [2, t[1], Fraction(t[2]), t[3]]
    return [fix_tree(x) for x in t]


def fix_case(case):
    for spec in case['pool']:
        spec['rhs'] = fix_tree(spec['rhs'])
        if spec['lhs'][0] == 'o':
            spec['lhs'] = ['o', fix_tree(spec['lhs'][1])]
    return case


class Impl(object):
    """Runs a case on cellmlmanip.model.Model."""

    def __init__(self, case):
        import cellmlmanip.model as M
        fix_case(case)
        self.M = M
        self.case = case
        self.model = M.Model('m', cmeta_id=case.get('mcmeta'))
        self.objs = []
        self.live = []
        self.qtys = {}
        self.results = []
        for name, cmeta, init in case['base']:
            v = self.model.add_variable(name, 'dimensionless', initial_value=None if init is None else float(Fraction(init)),
                                        cmeta_id=cmeta)
            self.objs.append(v)
            self.live.append(True)
        self.eqobjs = [self.build_eq(spec) for spec in case['pool']]
        self.eqid = {id(e): i for i, e in enumerate(self.eqobjs)}
        self.eqrecs = [self.eqrec(e) for e in self.eqobjs]

    # -- construction
    def quantity(self, qid, value, unit):
        if qid not in self.qtys:
            self.qtys[qid] = self.model.create_quantity(float(value), 'dimensionless')
        return self.qtys[qid]

    def tree(self, t):
        return reflect(t, self.objs, self.quantity, evaluate=True)

    def build_eq(self, spec):
        import sympy
        l = spec['lhs']
        if l[0] == 'v':
            lhs = self.objs[l[1]]
        elif l[0] == 'd':
            lhs = sympy.Derivative(self.objs[l[1]], (self.objs[l[2]], l[3]), evaluate=False)
        elif l[0] == 'd2':
            lhs = sympy.Derivative(self.objs[l[1]], self.objs[l[2]], self.objs[l[3]], evaluate=False)
        elif l[0] == 's':
            # not a variable of the model, but an atom carrying the NAME of one (an invalid left-hand side)
            lhs = (sympy.Dummy if l[2] else sympy.Symbol)(self.objs[l[1]].name)
        else:
            lhs = self.tree(l[1])
        return sympy.Eq(lhs, self.tree(spec['rhs']), evaluate=False)

    def vidx(self, v):
        for i, o in enumerate(self.objs):
            if o is v:
                return i
        return -1

    def ref(self, x):
        if x.is_Derivative:
            return ['d', self.vidx(x.args[0]), self.vidx(x.args[1][0])]
        return ['v', self.vidx(x)]

    def refs_of(self, expr):
        """independent of Model.find_variables_and_derivatives: variables and derivative atoms, derivatives opaque"""
        out = []

        def walk(e):
            if e.is_Derivative or isinstance(e, self.M.Variable):
                r = self.ref(e)
                if r not in out:
                    out.append(r)
            else:
                for a in e.args:
                    walk(a)
        walk(expr)
        return sorted(out)

    def eqrec(self, eq):
        import sympy
        M = self.M
        lhs = eq.lhs
        if lhs.is_Derivative:
            y = lhs.args[0]
            if isinstance(y, M.Variable):
                l = [1, self.vidx(y), self.vidx(lhs.args[1][0]), int(lhs.args[1][1]), len(lhs.args) - 1]
            else:
                l = [2]
        elif isinstance(lhs, M.Variable):
            l = [0, self.vidx(lhs)]
        else:
            l = [2]
        rhs = eq.rhs
        dummies = rhs.atoms(M.Quantity)
        rhs_num = rhs.xreplace({d: d.evalf(M.FLOAT_PRECISION) for d in dummies}) if dummies else rhs
        atoms = sorted(self.vidx(a) for a in rhs.atoms(M.Variable))
        enc = lambda rs: [[0, r[1]] if r[0] == 'v' else [1, r[1], r[2]] for r in rs]
        return [l, enc(self.refs_of(rhs)), isinstance(rhs, M.Quantity), bool(dummies), enc(self.refs_of(rhs_num)), atoms]

    # -- guards shared with the model interpreter: calls that hand the model dead objects are API misuse
    def eq_alive(self, e):
        rec = self.eqrecs[e]
        used = set(rec[5])
        if rec[0][0] in (0, 1):
            used.update(rec[0][1:3] if rec[0][0] == 1 else rec[0][1:2])
        for r in rec[1]:
            used.update(r[1:])
        return all(0 <= i < len(self.live) and self.live[i] for i in used)

    def eq_vars(self, e):
        rec = self.eqrecs[e]
        used = set(rec[5])
        if rec[0][0] == 0:
            used.add(rec[0][1])
        elif rec[0][0] == 1:
            used.update(rec[0][1:3])
        for r in rec[1]:
            used.update(r[1:])
        return used

    def rmvar_ok(self, v):
        m = self.model
        d = m.get_definition(self.objs[v])
        for eq in m.equations:
            if eq is d:
                continue
            e = self.eqid.get(id(eq), -1)
            if e >= 0 and v in self.eq_vars(e):
                return False
        return True

    # -- observation helpers
    def gdump(self, g):
        nodes = []
        for n, d in g.nodes.items():
            eq = d.get('equation')
            e = None
            sub = False
            if eq is not None:
                if id(eq) in self.eqid:
                    e = self.eqid[id(eq)]
                else:
                    e = self.eq_by_lhs(n)
                    sub = True
            t = d.get('variable_type')
            nodes.append([self.ref(n), e, None if t is None else t.value, sub])
        edges = [[self.ref(a), self.ref(b)] for a, b in g.edges]
        return {'nodes': sorted(nodes, key=repr), 'edges': sorted(edges, key=repr)}

    def eq_by_lhs(self, lhs):
        """the model equation a number-substituted equation stems from (same left-hand side)"""
        for eq0 in self.model.equations:
            if eq0.lhs == lhs:
                return self.eqid.get(id(eq0), -1)
        return -1

    def mkref(self, r):
        import sympy
        if r[0] == 'v':
            return self.objs[r[1]]
        return sympy.Derivative(self.objs[r[1]], self.objs[r[2]], evaluate=False)

    def do(self, op):
        import rdflib
        from cellmlmanip.rdf import create_rdf_node
        m = self.model
        k = op[0]
        if k == 'addvar':
            v = m.add_variable(op[1], 'dimensionless', initial_value=None if op[3] is None else float(Fraction(op[3])),
                               cmeta_id=op[2])
            self.objs.append(v)
            self.live.append(True)
            return ['ok', len(self.objs) - 1]
        if k in ('rmvar', 'addcmeta', 'q_def', 'q_const', 'q_cmeta', 'q_annot', 'q_value', 'setinit'):
            if not (0 <= op[1] < len(self.objs)) or not self.live[op[1]]:
                return ['err', 9]
        if k == 'transfer':
            if not all(0 <= i < len(self.objs) and self.live[i] for i in op[1:3]):
                return ['err', 9]
        if k in ('addeq', 'rmeq') and not self.eq_alive(op[1]):
            return ['err', 9]
        if k == 'setinit':
            self.objs[op[1]].initial_value = None if op[2] is None else float(Fraction(op[2]))
            return ['ok']
        if k == 'rmvar' and not self.rmvar_ok(op[1]):
            return ['err', 9]
        if k == 'rmvar':
            m.remove_variable(self.objs[op[1]])
            self.live[op[1]] = False
            return ['ok']
        if k == 'addeq':
            m.add_equation(self.eqobjs[op[1]], check_duplicates=bool(op[2]))
            return ['ok']
        if k == 'rmeq':
            eq = self.eqobjs[op[1]]
            if (op[1] + len(m.equations)) % 2:
                # an equal but distinct Eq object names the same equation (list.remove and the definition maps must agree)
                import sympy
                eq = sympy.Eq(eq.lhs, eq.rhs, evaluate=False)
            m.remove_equation(eq)
            return ['ok']
        if k == 'addcmeta':
            m.add_cmeta_id(self.objs[op[1]])
            return ['ok']
        if k == 'transfer':
            m.transfer_cmeta_id(self.objs[op[1]], self.objs[op[2]])
            return ['ok']
        if k == 'triple':
            # object: an ontology term, or (index >= 10) the resource of a local id (e.g. bqbiol:hasPart rdf:resource="#id")
            obj = create_rdf_node('#' + LOCAL_IDS[op[3] - 10]) if op[3] >= 10 else create_rdf_node((OBJ_NS, 'o%d' % op[3]))
            m.rdf.add((create_rdf_node('#' + op[1]), create_rdf_node(pred(op[2])), obj))
            return ['ok']
        if k == 'q_eqs':
            return ['ok', [self.eqid.get(id(e), -1) for e in m.equations]]
        if k == 'q_def':
            d = m.get_definition(self.objs[op[1]])
            return ['ok', None if d is None else self.eqid.get(id(d), -1)]
        if k == 'q_states':
            return ['ok', [self.vidx(v) for v in m.get_state_variables()]]
        if k == 'q_graph':
            return ['ok', self.gdump(m.graph)]
        if k == 'q_ngraph':
            return ['ok', self.gdump(m.graph_with_sympy_numbers)]
        if k == 'q_vars':
            return ['ok', [self.vidx(v) for v in m.variables()]]
        if k == 'q_free':
            return ['ok', self.vidx(m.get_free_variable())]
        if k == 'q_const':
            return ['ok', bool(m.is_constant(self.objs[op[1]]))]
        if k == 'q_derivs':
            return ['ok', [self.ref(d) for d in m.get_derivatives()]]
        if k == 'q_derived':
            return ['ok', [self.vidx(v) for v in m.get_derived_quantities()]]
        if k == 'q_eqsfor':
            if not all(all(0 <= i < len(self.objs) and self.live[i] for i in r[1:]) for r in op[1]):
                return ['err', 9]
            eqs = m.get_equations_for([self.mkref(r) for r in op[1]], recurse=bool(op[2]), strip_units=bool(op[3]))
            out = []
            for eq in eqs:
                if id(eq) in self.eqid:
                    out.append([self.eqid[id(eq)], False])
                else:
                    out.append([self.eq_by_lhs(eq.lhs), True])
            return ['ok', out]
        if k == 'q_bycmeta':
            return ['ok', self.vidx(m.get_variable_by_cmeta_id(op[1]))]
        if k == 'q_byrdf':
            vs = m.get_variables_by_rdf(pred(op[1]), (OBJ_NS, 'o%d' % op[2]))
            return ['ok', [self.vidx(v) for v in vs]]
        if k == 'q_hascmeta':
            return ['ok', bool(m.has_cmeta_id(op[1]))]
        if k == 'q_cmeta':
            return ['ok', self.objs[op[1]].cmeta_id]
        if k == 'q_value':
            return ['ok', float(m.get_value(self.objs[op[1]]))]
        if k == 'q_annot':
            v = self.objs[op[1]]
            out = []
            if v.rdf_identity is not None:
                for s, p, o in m.rdf.triples((v.rdf_identity, None, None)):
                    out.append([pred_index(p), 10 + LOCAL_IDS.index(str(o)[1:]) if str(o).startswith('#')
                                else int(str(o).split('#o')[-1])])
            return ['ok', sorted(out)]
        raise RuntimeError('unknown op %r' % (op,))

    def step(self, op):
        try:
            return self.do(op)
        except Exception as e:
            return ['err', errcode(e), str(e)[:100]]

    # -- snapshot of every observable (populates the graph caches!)
    def snapshot(self):
        m = self.model
        snap = {}

        def q(name, f):
            try:
                snap[name] = f()
            except Exception as e:
                snap[name] = ['err', errcode(e)]
        q('eqs', lambda: [self.eqid.get(id(e), -1) for e in m.equations])
        q('vars', lambda: [[self.vidx(v), v.name, v.cmeta_id, v.initial_value] for v in m.variables()])
        q('defs', lambda: [[self.vidx(v), self.eqid.get(id(m.get_definition(v)), -1) if m.get_definition(v) is not None else None]
                           for v in m.variables()])
        q('states', lambda: [self.vidx(v) for v in m.get_state_variables()])
        q('graph', lambda: self.gdump(m.graph))
        q('ngraph', lambda: self.gdump(m.graph_with_sympy_numbers))
        q('cmetas', lambda: sorted([c, self.vidx(v)] for c, v in m._cmeta_id_to_variable.items()))
        q('rdf', lambda: sorted([str(s), str(p), str(o)] for s, p, o in m.rdf))
        return snap


def encode_case(case, eqrecs):
    """sexp for run_modelsm: (mcmeta pool ops) with the base variables as leading add_variable ops"""
    ops = []
    for name, cmeta, init in case['base']:
        ops.append([1, name, [] if cmeta is None else [cmeta], [] if init is None else [Fraction(init)]])
    for op in case['ops']:
        ops.append(encode_op(op))
    mc = case.get('mcmeta')
    return [[] if mc is None else [mc], eqrecs, ops]


def eref(r):
    return [0, r[1]] if r[0] == 'v' else [1, r[1], r[2]]


def encode_op(op):
    k = op[0]
    if k == 'addvar':
        return [1, op[1], [] if op[2] is None else [op[2]], [] if op[3] is None else [Fraction(op[3])]]
    if k == 'rmvar':
        return [2, op[1]]
    if k == 'addeq':
        return [3, op[1], bool(op[2])]
    if k == 'rmeq':
        return [4, op[1]]
    if k == 'addcmeta':
        return [5, op[1]]
    if k == 'transfer':
        return [6, op[1], op[2]]
    if k == 'triple':
        return [7, op[1], op[2], op[3]]
    if k == 'setinit':
        return [8, op[1], [] if op[2] is None else [Fraction(op[2])]]
    simple = {'q_eqs': 10, 'q_states': 12, 'q_graph': 13, 'q_ngraph': 14, 'q_vars': 15, 'q_free': 16, 'q_derivs': 18,
              'q_derived': 19}
    if k in simple:
        return [simple[k]]
    if k == 'q_def':
        return [11, op[1]]
    if k == 'q_const':
        return [17, op[1]]
    if k == 'q_eqsfor':
        return [20, [eref(r) for r in op[1]], bool(op[2]), bool(op[3])]
    if k == 'q_bycmeta':
        return [21, op[1]]
    if k == 'q_byrdf':
        return [22, op[1], op[2]]
    if k == 'q_hascmeta':
        return [23, op[1]]
    if k == 'q_cmeta':
        return [24, op[1]]
    if k == 'q_annot':
        return [25, op[1]]
    if k == 'q_value':
        return [30, op[1]]
    raise RuntimeError(op)


def dref(x):
    return ['v', x[1]] if x[0] == 0 else ['d', x[1], x[2]]


def decode_result(op, m):
    """model result sexp -> the same canonical form Impl.step produces"""
    if m[0] == -1:
        return ['err', 3 if m[1] == 4 else m[1]]
    k = op[0]
    if len(m) < 2:
        return ['ok']
    r = m[1]
    if k == 'addvar':
        return ['ok', r]
    if k in ('q_eqs', 'q_states', 'q_vars', 'q_derived', 'q_byrdf'):
        return ['ok', list(r)]
    if k == 'q_def':
        return ['ok', r[0] if r else None]
    if k in ('q_graph', 'q_ngraph'):
        nodes = [[dref(n[0]), n[1][0] if n[1] else None, n[2][0] if n[2] else None, bool(n[3])] for n in r[0]]
        edges = [[dref(a), dref(b)] for a, b in r[1]]
        return ['ok', {'nodes': sorted(nodes, key=repr), 'edges': sorted(edges, key=repr)}]
    if k in ('q_free', 'q_bycmeta'):
        return ['ok', r]
    if k in ('q_const', 'q_hascmeta'):
        return ['ok', bool(r)]
    if k == 'q_derivs':
        return ['ok', [dref(x) for x in r]]
    if k == 'q_eqsfor':
        return ['ok', [[e, bool(b)] for e, b in r]]
    if k == 'q_cmeta':
        return ['ok', vlib.sexp_str(r[0]) if r else None]
    if k == 'q_annot':
        return ['ok', sorted([p, o] for p, o in r)]
    if k == 'q_value':
        return ['ok', r[0] / r[1]]
    return ['ok']


def same(a, b, op=None):
    if a[0] != b[0]:
        return False
    if op is not None and op[0] == 'q_value':
        if a[0] == 'err':
            return True        # which exception get_value raises first depends on set iteration order
        return math.isclose(a[1], b[1], rel_tol=1e-9, abs_tol=1e-12)
    if a[0] == 'err':
        return a[1] == b[1]
    return a[1:2] == b[1:2]


def run_plain(case):
    """the history exactly as given (for the correspondence): returns (eqrecs, results)"""
    try:
        im = Impl(case)
    except Exception as e:
        return {'harness_error': 'setup: %r' % (e,)}
    res = [im.step(op) for op in case['ops']]
    return {'eqrecs': im.eqrecs, 'results': res}


# ---- generation -------------------------------------------------------------------------------------
BASE_NAMES = ['c$a', 'c$b', 'c$x', 'c$y', 'c$z', 'k$g', 'time', 'c$w', 'B$a', 'c$aa', 'd$v', 'Z', 'c$a_b']
EXTRA_NAMES = ['n$p', 'n$q', 'c$a', 'c$x', 'r', 'c__a']
CMETAS = ['id_a', 'id_b', 'c__a', 'c__b', 'c__a_', 'time', 'mid', 'τ_m', 'débit.2']     # legal XML ids, two of them not ASCII
LOCAL_IDS = CMETAS + ['c__x', 'c__y']


PROFILES = {
    'edit': [('addeq', 30), ('rmeq', 12), ('rmvar', 8), ('addvar', 7), ('addcmeta', 5), ('transfer', 4), ('triple', 4),
             ('query', 10), ('q_def', 4), ('q_const', 3), ('q_eqsfor', 6), ('q_bycmeta', 2), ('q_byrdf', 2),
             ('q_hascmeta', 1), ('q_cmeta', 1), ('q_annot', 1)],
    'annot': [('addeq', 4), ('rmeq', 2), ('rmvar', 12), ('addvar', 14), ('addcmeta', 14), ('transfer', 12), ('triple', 12),
              ('query', 2), ('q_bycmeta', 8), ('q_byrdf', 8), ('q_hascmeta', 4), ('q_cmeta', 4), ('q_annot', 4)],
    'value': [('addeq', 14), ('rmeq', 4), ('rmvar', 2), ('addvar', 2), ('setinit', 8), ('query', 18), ('q_def', 4), ('q_const', 10),
              ('q_value', 34), ('q_eqsfor', 4)],
    'query': [('addeq', 14), ('rmeq', 3), ('rmvar', 1), ('addvar', 1), ('query', 20), ('q_def', 8), ('q_const', 10),
              ('q_eqsfor', 43)],
}


def q(idc, val):
    return [2, idc, Fraction(val), 0]


def gen_rhs(rng, allowed, tvar, qcount, states=(), rational=False, pderiv=0.08):
    """random right-hand side over the allowed base variables; derivative atoms only of `states`; returns tree"""
    allow_deriv = bool(states)

    def leaf():
        r = rng.random()
        if r < 0.55:
            return [3, rng.choice(allowed)]
        if r < 0.93 - pderiv:
            qcount[0] += 1
            if rng.random() < 0.08:
                # two numbers in one expression that agree to six significant digits (the display name of a Quantity) yet differ
                a, b = rng.choice([('1234567', '1234568'), ('96485.3415', '96485.3'), ('0.30000004', '0.3')])
                qcount[0] += 1
                return [4, q(qcount[0] - 1, a), [5, q(qcount[0], b), [0, 0, Fraction(-1)]]] if rng.random() < 0.5 else \
                    [4, q(qcount[0] - 1, a), q(qcount[0], b)]
            if rng.random() < 0.06:
                # physical constants far from 1 (they must survive the substitution of plain numbers for quantities)
                return q(qcount[0], rng.choice(['1.380649e-23', '1.602176634e-19', '-2.5e-18']))
            return q(qcount[0], rng.choice(['2', '0.5', '3', '1', '-1', '10']))
        if r < 0.93 and allow_deriv:
            return [8, [3, rng.choice(list(states))], [3, tvar], 1]
        return [0, 0, Fraction(rng.choice([2, 3, 5]))]

    def go(d):
        r = rng.random()
        if d >= 2 or r < 0.3:
            return leaf()
        if r < 0.55:
            return [4, go(d + 1), go(d + 1)]
        if r < 0.8:
            return [5, go(d + 1), go(d + 1)]
        if r < 0.88:
            return [6, go(d + 1), [0, 0, Fraction(2)]]
        if r < 0.94 and not rational:
            return [7, 0, go(d + 1)]
        # a term that vanishes once numbers are substituted: zero-quantity times a variable
        qcount[0] += 1
        return [4, [5, q(qcount[0], '0'), [3, rng.choice(allowed)]], go(d + 1)]
    return go(0)


def _canon(t):
    """sums and products up to the order of their arguments (SymPy sorts them)"""
    if isinstance(t, list):
        c = [_canon(a) for a in t]
        if c and c[0] in (4, 5):
            return [c[0]] + sorted(c[1:], key=repr)
        return c
    return t


def gen_case(seed, profile='edit'):
    rng = random.Random(seed)
    nbase = rng.randint(7, 12) if profile == 'query' else rng.randint(4, 8 if profile == 'value' else 7)
    names = BASE_NAMES[:nbase]
    tvar = names.index('time') if 'time' in names else nbase - 1
    # the model's own id: sometimes equal to the display name of a variable (clash path of add_cmeta_id)
    mcmeta = rng.choice(['mid', 'c__a', 'c__x', 'time', 'c__b', 'c__y', 'k__g']) if rng.random() < (0.6 if profile == 'annot' else 0.3) else None
    mcmeta_ = mcmeta
    base = []
    used_c = set()
    for i, n in enumerate(names):
        c = None
        if rng.random() < 0.3:
            c = rng.choice(CMETAS)
            if c in used_c or c == 'mid' or c == mcmeta_:
                c = None
            else:
                used_c.add(c)
        init = rng.choice([None, '1', '0', '2.5', '-3']) if rng.random() < 0.7 else None
        if profile == 'value' and rng.random() < 0.9:
            init = rng.choice(['1', '0', '2.5', '-3', '0.5'])
        base.append([n, c, init])
    qcount = [0]
    pool = []
    # a well-formed core: one definition per variable (except time), referring to earlier variables, states and time
    kinds = {}
    core_eq = {}
    for y in range(nbase):
        if y == tvar:
            continue
        kinds[y] = 'ode' if rng.random() < 0.4 else 'alg'
    for y in range(nbase):
        if y == tvar:
            continue
        allowed = [i for i in range(nbase) if i < y or kinds.get(i) == 'ode' or i == tvar]
        if rng.random() < 0.25:
            qcount[0] += 1
            rhs = q(qcount[0], rng.choice(['1', '2', '0.25', '1.602176634e-19'] if rng.random() < 0.15 else ['1', '2', '0.25']))
        else:
            st = [i for i in kinds if kinds[i] == 'ode']
            pd = 0.08
            if profile == 'value' and rng.random() < 0.5:
                # chains of derivatives (d x/dt defined through d z/dt, a variable defined through d x/dt): acyclic, through
                # states of lower index only, and frequent enough to be queried
                if kinds[y] == 'ode':
                    st = [i for i in st if i < y]
                pd = 0.3
            rhs = gen_rhs(rng, allowed or [tvar], tvar, qcount, states=st, rational=(profile == 'value'), pderiv=pd)
        core_eq[y] = len(pool)
        pool.append({'lhs': ['d', y, tvar, 1] if kinds[y] == 'ode' else ['v', y], 'rhs': rhs})
    ncore = len(pool)
    chain_query = None
    if profile == 'value' and rng.random() < 0.4:
        # a forced chain of derivatives: d s2/dt mentions d s1/dt (s1 < s2 states) and a computed variable mentions d s2/dt
        sts = [i for i in sorted(kinds) if kinds[i] == 'ode']
        algs = [i for i in sorted(kinds) if kinds[i] == 'alg']
        if len(sts) >= 2 and algs:
            s1, s2 = sts[0], sts[-1]
            c = algs[-1]
            e2, ec = pool[core_eq[s2]], pool[core_eq[c]]
            e2['rhs'] = [4, e2['rhs'], [8, [3, s1], [3, tvar], 1]]
            ec['rhs'] = [4, ec['rhs'], [5, q(qcount[0] + 1, '2'), [8, [3, s2], [3, tvar], 1]]]
            qcount[0] += 1
            chain_query = c
    # alternatives and malformed entries
    for e in range(rng.randint(3, 6)):
        r = rng.random()
        y = rng.randrange(nbase)
        if r < 0.4:
            lhs = ['v', y]
        elif r < 0.7:
            lhs = ['d', y, tvar, 1]
        elif r < 0.8:
            lhs = ['d', y, tvar, 2]
        elif r < 0.9:
            lhs = ['d2', y, tvar, (tvar + 1) % nbase]
        elif r < 0.95:
            lhs = ['o', [4, [3, y], [3, (y + 1) % nbase]]]
        else:
            lhs = ['s', y, e % 2]
        # the model identifies equations by pool index, SymPy by structure (list.remove uses ==): keep the pool free of
        # structurally equal equations (only possible when no quantity, which has a unique id, occurs)
        for _ in range(8):
            rhs = gen_rhs(rng, list(range(nbase)), tvar, qcount, states=list(range(nbase)), rational=(profile == 'value'))
            if not any(_canon(p['lhs']) == _canon(lhs) and _canon(p['rhs']) == _canon(rhs) for p in pool):
                break
        else:
            qcount[0] += 1
            rhs = q(qcount[0], '1')
        pool.append({'lhs': lhs, 'rhs': rhs})
    stray = None
    if profile in ('value', 'edit') and nbase >= 3 and rng.random() < 0.4:
        # a stray ODE with respect to ANOTHER variable, added and removed again while the other ODEs stay
        ys = [i for i in sorted(kinds) if kinds[i] == 'alg']
        if ys:
            y = rng.choice(ys)
            s_ = rng.choice([i for i in range(nbase) if i not in (y, tvar)])
            qcount[0] += 1
            pool.append({'lhs': ['d', y, s_, 1], 'rhs': q(qcount[0], '1')})
            stray = (y, len(pool) - 1)
    clamp = None
    if profile == 'value' and rng.random() < 0.4:
        # a state that is clamped (its ODE replaced by x = number) and released again: it is the same state afterwards
        sts_ = [i for i in sorted(kinds) if kinds[i] == 'ode']
        if sts_:
            x_ = rng.choice(sts_)
            qcount[0] += 1
            pool.append({'lhs': ['v', x_], 'rhs': q(qcount[0], rng.choice(['2', '-1', '0.5']))})
            clamp = (x_, len(pool) - 1)
    retag = None
    if profile == 'value' and rng.random() < 0.4:
        # a computed variable that is a plain number for a while (x = number), is looked at (role queries build the graph), and
        # gets its real definition back: its value follows the CURRENT definition
        algs_ = [i for i in sorted(kinds) if kinds[i] == 'alg']
        if algs_:
            x2 = rng.choice(algs_)
            qcount[0] += 1
            pool.append({'lhs': ['v', x2], 'rhs': q(qcount[0], rng.choice(['3', '-0.5', '4']))})
            retag = (x2, len(pool) - 1)
    npool = len(pool)
    ops = []
    nvars = nbase
    for e in range(ncore):
        if rng.random() < (0.97 if profile in ('query', 'value') else 0.85):
            ops.append(['addeq', e, True])
    if chain_query is not None:
        ops.append(['q_value', chain_query])
    stray_ops = []
    if stray is not None:
        y, se = stray
        stray_ops = [['rmeq', core_eq[y]], ['addeq', se, True], ['q_free'], ['rmeq', se], ['q_free'], ['addeq', core_eq[y], True],
                     ['q_free'], ['q_states']]
        stray_ops += [['q_value', y], ['q_value', rng.randrange(nbase)]] if profile == 'value' else [['q_def', y], ['q_derivs']]
    clamp_ops = []
    if clamp is not None:
        x_, ce = clamp
        clamp_ops = [['q_value', x_], ['rmeq', core_eq[x_]], ['addeq', ce, True], ['q_value', x_], ['q_states'], ['rmeq', ce],
                     ['addeq', core_eq[x_], True], ['q_states'], ['q_value', x_], ['q_value', rng.randrange(nbase)]]
    nops = rng.randint(8, 25)
    queries = ['q_eqs', 'q_states', 'q_graph', 'q_ngraph', 'q_vars', 'q_free', 'q_derivs', 'q_derived']
    weights = PROFILES[profile]
    kinds = [k for k, w in weights for _ in range(w)]
    for _ in range(nops):
        k = rng.choice(kinds)
        if k == 'addeq':
            # check_duplicates=False is the library's internal switch (convert_variable over-defines a state on purpose);
            # asking for a duplicate definition through it is outside the property (DESIGN section 11)
            ops.append(['addeq', rng.randrange(npool), True])
        elif k == 'rmeq':
            ops.append(['rmeq', rng.randrange(npool)])
        elif k == 'rmvar':
            ops.append(['rmvar', rng.randrange(nvars)])
        elif k == 'addvar':
            c = rng.choice(CMETAS) if rng.random() < (0.7 if profile == 'annot' else 0.4) else None
            ops.append(['addvar', rng.choice(EXTRA_NAMES + names), c, rng.choice([None, '1'])])
            nvars += 1      # may fail; indices beyond the created objects are rejected consistently (code 9)
        elif k == 'addcmeta':
            ops.append(['addcmeta', rng.randrange(nvars)])
        elif k == 'transfer':
            ops.append(['transfer', rng.randrange(nvars), rng.randrange(nvars)])
        elif k == 'triple':
            ops.append(['triple', rng.choice(CMETAS + ['c__x', 'c__y']), rng.randrange(2),
                        10 + rng.randrange(len(LOCAL_IDS)) if rng.random() < 0.2 else rng.randrange(3)])
        elif k == 'query':
            ops.append([rng.choice(queries)])
        elif k == 'q_def':
            ops.append(['q_def', rng.randrange(nvars)])
        elif k == 'q_const':
            ops.append(['q_const', rng.randrange(nvars)])
        elif k == 'q_eqsfor':
            nreq = rng.randint(1, 3)
            reqs = []
            for _ in range(nreq):
                y = rng.randrange(nbase)
                reqs.append(['v', y] if rng.random() < 0.7 else ['d', y, tvar])
            ops.append(['q_eqsfor', reqs, rng.random() < 0.7, rng.random() < 0.5])
        elif k == 'q_bycmeta':
            ops.append(['q_bycmeta', rng.choice(CMETAS + ['c__x', 'c__y'])])
        elif k == 'q_byrdf':
            ops.append(['q_byrdf', rng.randrange(2), rng.randrange(3)])
        elif k == 'q_hascmeta':
            ops.append(['q_hascmeta', rng.choice(CMETAS)])
        elif k == 'q_cmeta':
            ops.append(['q_cmeta', rng.randrange(nvars)])
        elif k == 'q_annot':
            ops.append(['q_annot', rng.randrange(nvars)])
        elif k == 'q_value':
            ops.append(['q_value', rng.randrange(nvars)])
        elif k == 'setinit':
            ops.append(['setinit', rng.randrange(nbase), rng.choice(['1', '-2', '0.5', '4', '0'])])
    if profile == 'annot' and rng.random() < 0.35:
        # a DOUBLE collision for add_cmeta_id: the display name N of a variable without id and N_ are both taken
        cands = [i for i, b in enumerate(base) if b[1] is None and b[0].replace('$', '__') + '_' in CMETAS + ['c__x_', 'c__y_', 'c__b_']]
        free_ = [i for i, b in enumerate(base) if b[1] is None]
        if free_:
            v = rng.choice(cands or free_)
            d_ = base[v][0].replace('$', '__')
            pat = [['addvar', 'dc$one', d_, None], ['addvar', 'dc$two', d_ + '_', None], ['addcmeta', v], ['q_cmeta', v],
                   ['q_bycmeta', d_], ['q_bycmeta', d_ + '_'], ['q_bycmeta', d_ + '__'], ['q_hascmeta', d_ + '__']]
            # indices of the two added variables depend on earlier addvar operations: the pattern goes first
            ops[ncore:ncore] = pat
            nvars += 2
    if stray_ops:
        at = rng.randrange(len(ops) + 1) if rng.random() < 0.5 else ncore
        ops[at:at] = stray_ops
    if clamp_ops:
        at = rng.randrange(ncore, len(ops) + 1)
        ops[at:at] = clamp_ops
    if retag is not None:
        x2, ce2 = retag
        at = rng.randrange(ncore, len(ops) + 1)
        ops[at:at] = [['rmeq', core_eq[x2]], ['addeq', ce2, True], ['q_graph'], ['q_derived'], ['q_value', x2], ['rmeq', ce2],
                      ['addeq', core_eq[x2], True], ['q_value', x2], ['q_value', rng.randrange(nbase)], ['q_const', x2]]
    if profile == 'annot' and rng.random() < 0.35:
        # an id that moves away from a variable whose annotations were looked at, and a NEW id for that variable: the
        # annotations of the old id stay with its new carrier, also when the first variable is removed
        with_id = [i for i, b in enumerate(base) if b[1] is not None]
        if with_id and nbase >= 2:
            v = rng.choice(with_id)
            w = rng.choice([i for i in range(nbase) if i != v])
            pat = [['triple', base[v][1], 0, 1], ['q_annot', v], ['transfer', v, w], ['addcmeta', v], ['q_annot', v],
                   ['q_annot', w], ['q_byrdf', 0, 1], ['rmvar', v], ['q_annot', w], ['q_byrdf', 0, 1], ['q_bycmeta', base[v][1]]]
            at = rng.randrange(len(ops) + 1) if rng.random() < 0.5 else 0
            ops[at:at] = pat
    if profile == 'annot' and rng.random() < 0.35:
        # an annotation of one variable whose OBJECT is the resource of another local variable (bqbiol:hasPart
        # rdf:resource="#w_id"): removing the first variable removes its own annotations, never those of the other
        with_id = [i for i, b in enumerate(base) if b[1] is not None]
        if len(with_id) >= 2:
            v, w = rng.sample(with_id, 2)
            pat = [['triple', base[w][1], 0, 1], ['triple', base[w][1], 1, 2],
                   ['triple', base[v][1], rng.randrange(2), 10 + LOCAL_IDS.index(base[w][1])],
                   ['q_annot', w], ['rmeq', core_eq.get(v, 0)], ['rmvar', v], ['q_annot', w], ['q_byrdf', 0, 1], ['q_byrdf', 1, 2]]
            at = rng.randrange(len(ops) + 1) if rng.random() < 0.5 else 0
            ops[at:at] = pat
    # always end with the full set of queries
    for qn in queries:
        ops.append([qn])
    return {'seed': seed, 'mcmeta': mcmeta, 'base': base, 'pool': pool, 'ops': ops}


def annotations_lost(before, now, op, removed_identity):
    """frame rule for annotations: no operation deletes an annotation, except remove_variable those of the variable removed
    (its subject); transfer_cmeta_id moves them to the new subject.  -> the triples that disappeared against the rule"""
    gone = [t for t in before if t not in now]
    if op[0] == 'rmvar' and removed_identity is not None:
        gone = [t for t in gone if t[0] != removed_identity]
    if op[0] == 'transfer':
        po = sorted((str(t[1]), str(t[2])) for t in before)
        gone = [] if po == sorted((str(t[1]), str(t[2])) for t in now) else gone
    return gone


def correspond(ctx, cases, plains, label, fn=FN, with_rhs=False):
    """model vs implementation, operation by operation"""
    idx = [i for i, p in enumerate(plains) if 'eqrecs' in p]
    for i, p in enumerate(plains):
        if 'harness_error' in p:
            ctx.tie_break('harness error while running the implementation: ' + p['harness_error'], cases[i])
    if not ctx.model_ok() or not idx:
        return
    enc = []
    for i in idx:
        e = encode_case(cases[i], plains[i]['eqrecs'])
        if with_rhs:
            e = [e[0], e[1], [spec['rhs'] for spec in cases[i]['pool']], e[2]]
        enc.append(e)
    outs = vlib.model_run(fn, enc)
    for i, out in zip(idx, outs):
        case = cases[i]
        nb = len(case['base'])
        ctx.corr_cases += 1
        for j, (op, r) in enumerate(zip(case['ops'], plains[i]['results'])):
            m = decode_result(op, out[nb + j])
            if not same(r, m, op):
                ctx.tie_break('correspondence %s (Model/ModelSM.v vs model.py) differs at operation %d %r: implementation %r, model %r'
                              % (label, j, op, r[:3], m[:3]), {'case': case, 'op_index': j})
                break
