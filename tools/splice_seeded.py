"""Regenerates the seeded-changes table of DESIGN.md (between the seeded-table markers) from seeded/*/meta.json."""
import os
import subprocess
here = os.path.dirname(os.path.abspath(__file__))
table = subprocess.run(['python3', os.path.join(here, 'seeded_table.py')], capture_output=True, text=True, check=True).stdout
p = os.path.join(here, '..', 'DESIGN.md')
s = open(p).read()
a, b = '<!-- seeded-table-begin -->', '<!-- seeded-table-end -->'
i, j = s.index(a) + len(a), s.index(b)
open(p, 'w').write(s[:i] + '\n' + table + s[j:])
print(table.count('\n') - 2, 'rows')
