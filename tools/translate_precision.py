"""Translator: the number path of /repo/cellmlmanip  ->  coq/Gen/Precision_gen.v   (property C14).

Read with `ast` (never imported):
  model.py    FLOAT_PRECISION (a positive int literal, assigned once), its use `d.evalf(FLOAT_PRECISION)` in
              graph_with_sympy_numbers, Quantity.__float__ / Quantity._eval_evalf, Variable.initial_value
  parser.py   Transpiler._cn_handler: the two conversions `float('%se%d' % (mantissa, exponent))` and
              `float(node.text.strip())`, `mantissa = node.text.strip()`, `exponent = int(node[0].tail.strip())`
  printer.py  _print_float (`str(expr)`) and _print_Float (`self._print_float(float(expr))`)
The format string is split into pieces (%s, %d, literal text) and emitted as data; the Coq model interprets it.
Fail-closed: any other shape of one of these statements is an error (non-zero exit)."""
import ast
import os
import re
import sys

sys.path.insert(0, os.path.dirname(os.path.abspath(__file__)))
from vlib import REPO, COQ, write_if_changed


def die(msg):
    raise SystemExit('translator precision: ' + msg)


def norm(node):
    return ast.dump(node, annotate_fields=False, include_attributes=False)


def expr_of(text):
    return norm(ast.parse(text, mode='eval').body)


def find_class(tree, name):
    hits = [n for n in tree.body if isinstance(n, ast.ClassDef) and n.name == name]
    if len(hits) != 1:
        die('class %s not found exactly once' % name)
    return hits[0]


def find_method(cls, name):
    hits = [n for n in cls.body if isinstance(n, ast.FunctionDef) and n.name == name]
    if len(hits) != 1:
        die('method %s.%s not found exactly once' % (cls.name, name))
    return hits[0]


def body_wo_doc(fn):
    body = list(fn.body)
    if body and isinstance(body[0], ast.Expr) and isinstance(body[0].value, ast.Constant) \
            and isinstance(body[0].value.value, str):
        body = body[1:]
    return body


def single_return(fn, expected, what):
    body = body_wo_doc(fn)
    if len(body) != 1 or not isinstance(body[0], ast.Return) or body[0].value is None:
        die('%s is not a single return statement' % what)
    if norm(body[0].value) != expr_of(expected):
        die('%s returns %s, expected %s' % (what, ast.unparse(body[0].value), expected))


def assignments(fn, target):
    out = []
    for n in ast.walk(fn):
        if isinstance(n, ast.Assign) and len(n.targets) == 1 and isinstance(n.targets[0], ast.Name) \
                and n.targets[0].id == target:
            out.append(n.value)
        elif isinstance(n, (ast.AugAssign, ast.AnnAssign)) and isinstance(n.target, ast.Name) and n.target.id == target:
            die('%s is modified in place in %s' % (target, fn.name))
    return out


def split_format(fmt):
    """'%se%d' -> [('s',), ('lit','e'), ('d',)]; only %s, %d and literal text without '%'."""
    pieces = []
    pos = 0
    for m in re.finditer(r'%(.)', fmt):
        if m.start() > pos:
            pieces.append(('lit', fmt[pos:m.start()]))
        if m.group(1) not in 'sd':
            die('conversion %%%s in the e-notation format %r is not understood' % (m.group(1), fmt))
        pieces.append((m.group(1),))
        pos = m.end()
    if pos < len(fmt):
        pieces.append(('lit', fmt[pos:]))
    for p in pieces:
        if p[0] == 'lit' and not re.fullmatch(r'[ -~]+', p[1]):
            die('unprintable text in the format %r' % fmt)
    return pieces


def main():
    # ---- model.py
    msrc = open(os.path.join(REPO, 'cellmlmanip', 'model.py')).read()
    mtree = ast.parse(msrc)
    vals = []
    for n in ast.walk(mtree):
        if isinstance(n, ast.Assign) and any(isinstance(t, ast.Name) and t.id == 'FLOAT_PRECISION' for t in n.targets):
            vals.append(n.value)
        elif isinstance(n, (ast.AugAssign, ast.AnnAssign)) and isinstance(n.target, ast.Name) \
                and n.target.id == 'FLOAT_PRECISION':
            die('FLOAT_PRECISION is modified after its definition')
        elif isinstance(n, ast.Global) and 'FLOAT_PRECISION' in n.names:
            die('FLOAT_PRECISION is declared global in a function')
    if len(vals) != 1:
        die('FLOAT_PRECISION assigned %d times' % len(vals))
    v = vals[0]
    if not (isinstance(v, ast.Constant) and type(v.value) is int and 1 <= v.value <= 100000):
        die('FLOAT_PRECISION is not a positive int literal: %s' % ast.unparse(v))
    float_precision = v.value

    model_cls = find_class(mtree, 'Model')
    gws = find_method(model_cls, 'graph_with_sympy_numbers')
    subs = assignments(gws, 'subs_dict')
    if len(subs) != 1 or norm(subs[0]) != expr_of('{d: d.evalf(FLOAT_PRECISION) for d in dummies}'):
        die('graph_with_sympy_numbers: subs_dict is not {d: d.evalf(FLOAT_PRECISION) for d in dummies}')
    dums = assignments(gws, 'dummies')
    if len(dums) != 1 or norm(dums[0]) != expr_of('equation.rhs.atoms(Quantity)'):
        die('graph_with_sympy_numbers: dummies is not equation.rhs.atoms(Quantity)')
    rhs = assignments(gws, 'rhs')
    if len(rhs) != 1 or norm(rhs[0]) != expr_of('equation.rhs.xreplace(subs_dict)'):
        die('graph_with_sympy_numbers: rhs is not equation.rhs.xreplace(subs_dict)')

    qty = find_class(mtree, 'Quantity')
    single_return(find_method(qty, '__float__'), 'float(self._value)', 'Quantity.__float__')
    single_return(find_method(qty, '_eval_evalf'), 'sympy.Float(self._value, prec)', 'Quantity._eval_evalf')
    qinit = body_wo_doc(find_method(qty, '__init__'))
    if [ast.unparse(s) for s in qinit] != ['self._value = value', 'self.units = units']:
        die('Quantity.__init__ does more than store value and units')

    var = find_class(mtree, 'Variable')
    vinit = find_method(var, '__init__')
    iv = [n for n in ast.walk(vinit) if isinstance(n, ast.Assign) and len(n.targets) == 1
          and ast.unparse(n.targets[0]) == 'self.initial_value']
    if len(iv) != 1 or norm(iv[0].value) != expr_of('None if initial_value is None else float(initial_value)'):
        die('Variable.__init__: initial_value is not stored as float(initial_value)')

    cq = find_method(model_cls, 'create_quantity')
    rets = [n for n in ast.walk(cq) if isinstance(n, ast.Return)]
    if len(rets) != 1 or norm(rets[0].value) != expr_of('Quantity(value, units)'):
        die('Model.create_quantity does not return Quantity(value, units)')

    # ---- parser.py
    psrc = open(os.path.join(REPO, 'cellmlmanip', 'parser.py')).read()
    ptree = ast.parse(psrc)
    cn = find_method(find_class(ptree, 'Transpiler'), '_cn_handler')
    nums = assignments(cn, 'number')
    if len(nums) != 2:
        die('_cn_handler assigns `number` %d times (expected: e-notation and plain)' % len(nums))
    # the text may pass through Transpiler._number_text(node, text, lexical_form), which must return the stripped text
    # unchanged (or raise): then float(self._number_text(node, X, F)) is float(X.strip())
    tr = find_class(ptree, 'Transpiler')
    has_nt = any(isinstance(n, ast.FunctionDef) and n.name == '_number_text' for n in tr.body)
    if has_nt:
        nt = body_wo_doc(find_method(tr, '_number_text'))
        shape = [type(x).__name__ for x in nt]
        if not (shape == ['Assign', 'If', 'Return'] and ast.unparse(nt[0]) == "text = (text or '').strip()"
                and ast.unparse(nt[2]) == 'return text' and len(nt[1].body) == 1 and isinstance(nt[1].body[0], ast.Raise)
                and not nt[1].orelse and ast.unparse(nt[1].test) == 'not lexical_form.fullmatch(text)'):
            die('Transpiler._number_text is not "strip, check the lexical form, return the text": %s'
                % ' ; '.join(ast.unparse(x) for x in nt))
    PLAIN = ['float(node.text.strip())'] + (['float(self._number_text(node, node.text, _CN_REAL))'] if has_nt else [])
    MANT = ['node.text.strip()'] + (['self._number_text(node, node.text, _CN_DECIMAL)'] if has_nt else [])
    EXPO = ['int(node[0].tail.strip())'] + (['int(self._number_text(node, node[0].tail, _CN_INTEGER))'] if has_nt else [])
    plains = [n for n in nums if norm(n) in [expr_of(x) for x in PLAIN]]
    if len(plains) != 1:
        die('_cn_handler: no (single) plain <cn> conversion float(node.text.strip()): %s'
            % ' / '.join(ast.unparse(n) for n in nums))
    enot = [n for n in nums if n is not plains[0]][0]
    if not (isinstance(enot, ast.Call) and isinstance(enot.func, ast.Name) and enot.func.id == 'float'
            and len(enot.args) == 1 and not enot.keywords):
        die('_cn_handler: e-notation value is not ONE float(...) conversion: %s' % ast.unparse(enot))
    arg = enot.args[0]
    if not (isinstance(arg, ast.BinOp) and isinstance(arg.op, ast.Mod) and isinstance(arg.left, ast.Constant)
            and isinstance(arg.left.value, str) and norm(arg.right) == expr_of('(mantissa, exponent)')):
        die('_cn_handler: e-notation text is not "<format>" %% (mantissa, exponent): %s' % ast.unparse(arg))
    fmt = arg.left.value
    pieces = split_format(fmt)
    man = assignments(cn, 'mantissa')
    if len(man) != 1 or norm(man[0]) not in [expr_of(x) for x in MANT]:
        die('_cn_handler: mantissa is not node.text.strip()')
    exps = assignments(cn, 'exponent')
    if len(exps) != 1 or norm(exps[0]) not in [expr_of(x) for x in EXPO]:
        die('_cn_handler: exponent is not int(node[0].tail.strip())')
    rets = [n for n in ast.walk(cn) if isinstance(n, ast.Return)]
    if len(rets) != 1 or norm(rets[0].value) != expr_of('self.number_generator(number, units)'):
        die('_cn_handler does not return self.number_generator(number, units)')
    pinit = None
    for n in ast.walk(ptree):
        if isinstance(n, ast.keyword) and n.arg == 'number_generator':
            pinit = n.value
    if pinit is None or norm(pinit) != expr_of(
            'lambda x, y: self.model.create_quantity(x, self.model.units.get_unit(y))'):
        die('Parser: number_generator is not create_quantity(x, get_unit(y))')

    # ---- printer.py
    rtree = ast.parse(open(os.path.join(REPO, 'cellmlmanip', 'printer.py')).read())
    pr = find_class(rtree, 'Printer')
    single_return(find_method(pr, '_print_float'), 'str(expr)', 'Printer._print_float')
    single_return(find_method(pr, '_print_Float'), 'self._print_float(float(expr))', 'Printer._print_Float')

    def coq_piece(p):
        if p[0] == 's':
            return 'FStr'
        if p[0] == 'd':
            return 'FInt'
        return 'FLit [%s]' % '; '.join(str(ord(c)) for c in p[1])

    out = '''(* GENERATED by tools/translate_precision.py from /repo/cellmlmanip/{model,parser,printer}.py -- do not edit *)
From Coq Require Import List ZArith.
Import ListNotations.
Open Scope Z_scope.

(* one piece of the %%-format that builds the text handed to float() for <cn type="e-notation"> *)
Inductive fmt_piece := FStr | FInt | FLit (chars : list Z).

(* model.py: FLOAT_PRECISION = %d *)
Definition FLOAT_PRECISION : Z := %d.

(* parser.py _cn_handler: float(%r %% (mantissa, exponent)) -- one conversion of the concatenated text *)
Definition cn_enotation_format : list fmt_piece := [%s].
''' % (float_precision, float_precision, fmt, '; '.join(coq_piece(p) for p in pieces))
    write_if_changed(os.path.join(COQ, 'Gen', 'Precision_gen.v'), out)
    print('Precision_gen.v: FLOAT_PRECISION=%d format=%r' % (float_precision, fmt))


if __name__ == '__main__':
    main()
