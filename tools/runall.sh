#!/bin/bash
# usage: tools/runall.sh [quick|thorough]   -- every claimed check once against /repo, summary on stdout (exit 1 if any fails)
cd "$(dirname "$0")/.." || exit 2
TIER=${1:-quick}
rc=0
for p in $(python3 -c "import json; print(' '.join(c['property_id'] for c in json.load(open('MANIFEST.json'))['checks']))"); do
  out=$(./check $p $TIER 2>&1); r=$?
  echo "$out" | grep -E "^\[$p|^VIOLATION" | cut -c1-220
  [ $r -ne 0 ] && rc=1
done
exit $rc
