"""Entry point: ./check Cxx quick|thorough|--replay <file>   (pipeline of DESIGN.md section 2)."""
import importlib
import json
import os
import sys
import traceback

sys.path.insert(0, os.path.dirname(os.path.abspath(__file__)))
import vlib
import logging
logging.disable(logging.CRITICAL)


def main():
    if len(sys.argv) < 3:
        print('usage: ./check Cxx quick|thorough|--replay <file>')
        return 2
    prop = sys.argv[1].upper()
    mode = sys.argv[2]
    vlib.assert_repo_import()
    mod = importlib.import_module('props.' + prop.lower())
    seed = int(os.environ.get('VERIF_SEED', '0') or 0)
    if mode == '--replay':
        data = json.load(open(sys.argv[3]))
        ctx = vlib.Ctx(prop, 'quick', seed)
        ctx.known_preds = getattr(mod, 'KNOWN_PREDICATES', {})
        if data.get('kind') == 'no-failing-input-found':
            print('replay file names obligations that no longer check:')
            for w in data.get('no_longer_checks', []):
                print('  -', w)
            case = data.get('disagreeing_case')
            if case is None:
                ctx.do_build(getattr(mod, 'GEN_DEPS', ()))
                ok = not ctx.tie_breaks
                print('REPLAY property=%s: obligations %s' % (prop, 'check again' if ok else 'still broken'))
                return 0 if ok else 1
        else:
            case = data['case']
        ctx.do_build(getattr(mod, 'GEN_DEPS', ()))
        res = mod.replay(ctx, case)
        bad = bool(ctx.violations) or bool(ctx.known_hits) or bool(res)
        print('REPLAY property=%s: %s' % (prop, 'still fails: %s' % (res or (ctx.violations or list(ctx.known_hits.values()))[0][0])
                                          if bad else 'passes'))
        return 1 if bad else 0
    tier = 'thorough' if mode == 'thorough' else 'quick'
    if os.environ.get('VERIF_TIER') in ('quick', 'thorough') and mode not in ('quick', 'thorough'):
        tier = os.environ['VERIF_TIER']
    ctx = vlib.Ctx(prop, tier, seed)
    ctx.known_preds = getattr(mod, 'KNOWN_PREDICATES', {})
    try:
        ctx.do_build(getattr(mod, 'GEN_DEPS', ()))
        if tier == 'thorough':
            hits = vlib.forbidden_words()
            if hits:
                ctx.tie_break('forbidden declarations in the Coq development: ' + '; '.join(hits[:5]))
        mod.run(ctx)
    except Exception:
        ctx.tie_break('harness error: ' + traceback.format_exc()[-1500:])
    return ctx.finish()


def _with_private_tmp():
    """every temporary file of a run (workers and sub-processes included) lives in build/tmp/run_<pid>, removed at the end"""
    import shutil
    import tempfile
    d = os.path.join(vlib.BUILD, 'tmp', 'run_%d' % os.getpid())
    os.makedirs(d, exist_ok=True)
    os.environ['TMPDIR'] = d
    tempfile.tempdir = d
    try:
        return main()
    finally:
        shutil.rmtree(d, ignore_errors=True)


if __name__ == '__main__':
    sys.exit(_with_private_tmp())
