"""Shared generator / drivers for the loader properties C01, C15, C17 (DESIGN.md section 5).

A *document* is a JSON-able dict that alone reproduces the .cellml text, the s-expression handed to
coq/Model/Loader.v and the reference semantics:

  units   c03-style definitions          comps   name, vars, maths ([[eq ...] per <math>]), units_inside, reaction
  groups  rels + component_ref trees      conns   c1, c2, maps [[v1, v2] ...]        order  top-level element order
  eq      ['eq', lhs, rhs]                expr    ['ci', n] | ['cn', text, units] | [op, args ...]
          op in plus minus times divide power exp diff diff2 floor ceiling rem
"""
import copy
import json
import math
import os
import random
import re
import tempfile
from decimal import Decimal
from fractions import Fraction

import vlib

FN_LOAD = 170
FN_DIR = 171

# ---- unit pool: equal dimension, different scale ------------------------------------------------------------------
POOL = {'V': ['volt', 'mV', 'uV', 'nV', 'pV', 'dmV'],      # nV -> uV -> mV -> volt, pV one deeper; dmV = (mV ms) / ms
        'T': ['second', 'ms'],
        # dimensionless RATIO units whose names do not cancel: mV / volt, litre / metre^3, mg / kilogram
        '1': ['dimensionless', 'percent', 'mV_per_V', 'L_per_m3', 'ppm'], 'U': ['ub', 'kub'],
        'A': ['m2', 'half_m2', 'quarter_cm2'],     # user units combining multiplier, prefix and exponent
        'H': ['rt_s', 'rt_ms'], 'Q': ['s15', 'ms15'], 'N': ['prt_s', 'prt_ms'],     # half-integer exponents
        # several <unit> children, ONE of them prefixed: prefixed child first (mV_per_s, uA_per_m2, mM) and, as a control
        # with the same meaning, last (per_s_mV, per_m2_uA, per_L_mmol); named and integer prefixes
        'R': ['V_per_s', 'mV_per_s', 'per_s_mV'], 'J': ['A_per_m2', 'uA_per_m2', 'per_m2_uA'],
        'C': ['mol_per_L', 'mM', 'per_L_mmol'],
        # user unit names X and Xs side by side (m / ms, u / us, metre_ / metre_s) and units built on Xs: a units library
        # that knows X could read an undefined `Xs` as the plural of X
        'F': ['per_s', 'per_ms', 'per_us'], 'L': ['m', 'u', 'metre_', 'metre_s']}
# two user unit names whose MEANING changes from document to document (flavour 0, 1, 2)
POOL['V'].append('uv_x')
POOL['T'].append('ut_x')
# gram with each of the 20 SI prefix names and with integer prefixes: a few per document, all of them across a run
MASS_PREFIXES = ['yotta', 'zetta', 'exa', 'peta', 'tera', 'giga', 'mega', 'kilo', 'hecto', 'deka', 'deci', 'centi', 'milli',
                 'micro', 'nano', 'pico', 'femto', 'atto', 'zepto', 'yocto']
MASS_INT_PREFIXES = ['5', '-7', '1', '-2', '13', '-16']


def mass_unit(p):
    return 'g_' + (p if p in MASS_PREFIXES else ('p' + p).replace('p-', 'm'))


FLAVOURS = {'uv_x': [dict(units='volt', prefix='milli'), dict(units='volt', prefix='micro'),
                     dict(units='volt', multiplier='10')],
            'ut_x': [dict(units='second', prefix='milli'), dict(units='second', multiplier='60'),
                     dict(units='second', prefix='-6')]}
PREFIX_POWER = {'yotta': 24, 'zetta': 21, 'exa': 18, 'peta': 15, 'tera': 12, 'giga': 9, 'mega': 6, 'kilo': 3, 'hecto': 2,
                'deka': 1, 'deci': -1, 'centi': -2, 'milli': -3, 'micro': -6, 'nano': -9, 'pico': -12, 'femto': -15,
                'atto': -18, 'zepto': -21, 'yocto': -24}
DIM_OF = {u: d for d, us in POOL.items() for u in us}
DIM_OF.update({('g_' + q): 'M' for q in ['yotta', 'zetta', 'exa', 'peta', 'tera', 'giga', 'mega', 'kilo', 'hecto', 'deka', 'deci',
                                         'centi', 'milli', 'micro', 'nano', 'pico', 'femto', 'atto', 'zepto', 'yocto',
                                         'p5', 'm7', 'p1', 'm2', 'p13', 'm16']})
SCALE = {'volt': Fraction(1), 'mV': Fraction(1, 1000), 'uV': Fraction(1, 10 ** 6), 'second': Fraction(1),
         'ms': Fraction(1, 1000), 'dimensionless': Fraction(1), 'percent': Fraction(1, 100), 'ub': Fraction(1),
         'kub': Fraction(1000), 'ampere': Fraction(1), 'kilogram': Fraction(1), 'metre': Fraction(1),
         'gram': Fraction(1, 1000), 'litre': Fraction(1, 1000), 'mole': Fraction(1),
         # CellML 5.2.7: multiplier * (prefix * unit) ** exponent
         'm2': Fraction(1), 'half_m2': Fraction(1, 2), 'quarter_cm2': Fraction(1, 4) * Fraction(1, 100) ** 2}
BUILTIN_USED = ['volt', 'second', 'dimensionless', 'ampere', 'kilogram', 'metre', 'gram', 'litre', 'mole']


def _child(units, prefix=None, exponent=None, multiplier=None, offset=None):
    return {'units': units, 'prefix': prefix, 'exponent': exponent, 'multiplier': multiplier, 'offset': offset}


def _def(name, children=None, base=None):
    return {'name': name, 'base': base, 'children': children or []}


def unit_defs(flavour=0, mass=()):
    return [_def(mass_unit(q), [_child('gram', prefix=q)]) for q in mass] + [_def(n, [_child(**FLAVOURS[n][flavour % 3])]) for n in sorted(FLAVOURS)] + [
            _def('rt_s', [_child('second', exponent='0.5')]),
            _def('rt_ms', [_child('second', prefix='milli', exponent='0.5')]),
            _def('s15', [_child('second', exponent='1.5')]),
            _def('ms15', [_child('second', prefix='milli', exponent='1.5')]),
            _def('prt_s', [_child('second', exponent='-0.5')]),
            _def('prt_ms', [_child('second', prefix='milli', exponent='-0.5')]),
            _def('mV', [_child('volt', prefix='milli')]), _def('uV', [_child('mV', prefix='-3')]),
            _def('nV', [_child('uV', prefix='nano', multiplier='1e6')]), _def('pV', [_child('nV', multiplier='0.001')]),
            _def('mV_ms', [_child('mV'), _child('ms')]), _def('dmV', [_child('mV_ms'), _child('ms', exponent='-1')]),
            _def('mg', [_child('gram', prefix='milli')]),
            _def('m', [_child('metre')]), _def('u', [_child('metre', prefix='micro')]),
            _def('us', [_child('second', prefix='micro')]),
            _def('metre_', [_child('metre', multiplier='2')]), _def('metre_s', [_child('metre_', multiplier='3')]),
            _def('per_s', [_child('second', exponent='-1')]), _def('per_ms', [_child('ms', exponent='-1')]),
            _def('per_us', [_child('us', exponent='-1')]),
            _def('V_per_s', [_child('volt'), _child('second', exponent='-1')]),
            _def('mV_per_s', [_child('volt', prefix='milli'), _child('second', exponent='-1')]),
            _def('per_s_mV', [_child('second', exponent='-1'), _child('volt', prefix='milli')]),
            _def('A_per_m2', [_child('ampere'), _child('metre', exponent='-2')]),
            _def('uA_per_m2', [_child('ampere', prefix='-6'), _child('metre', exponent='-2')]),
            _def('per_m2_uA', [_child('metre', exponent='-2'), _child('ampere', prefix='-6')]),
            _def('mol_per_L', [_child('mole'), _child('litre', exponent='-1')]),
            _def('mM', [_child('mole', prefix='milli'), _child('litre', exponent='-1')]),
            _def('per_L_mmol', [_child('litre', exponent='-1'), _child('mole', prefix='milli')]),
            _def('mV_per_V', [_child('mV'), _child('volt', exponent='-1')]),
            _def('L_per_m3', [_child('litre'), _child('metre', exponent='-3')]),
            _def('ppm', [_child('mg'), _child('kilogram', exponent='-1')]),
            _def('ms', [_child('second', multiplier='0.001')]),
            _def('percent', [_child('dimensionless', multiplier='0.01')]),
            _def('ub', base='yes'), _def('kub', [_child('ub', prefix='kilo')]),
            _def('m2', [_child('metre', exponent='2')]),
            _def('half_m2', [_child('metre', exponent='2', multiplier='0.5')]),
            _def('quarter_cm2', [_child('metre', prefix='centi', exponent='2', multiplier='0.25')])]


def doc_scales(doc):
    """SI scale of every unit name of THIS document, from the document's own <units> (CellML 5.2.7:
    product over the <unit> children of  multiplier * (10^prefix * scale(units)) ^ exponent); floats"""
    defs = {d['name']: d for d in doc['units']}
    out = {}

    def scale(n, depth=0):
        if n in out:
            return out[n]
        if n not in defs or depth > 20:
            return float(SCALE.get(n, 1))
        d = defs[n]
        x = 1.0
        if d['base'] != 'yes':
            for c in d['children']:
                p = c.get('prefix')
                k = 0 if p is None else (PREFIX_POWER[p] if p in PREFIX_POWER else int(p))
                e = 1.0 if c.get('exponent') is None else float(c['exponent'])
                m = 1.0 if c.get('multiplier') is None else float(c['multiplier'])
                x *= m * (10.0 ** k * scale(c['units'], depth + 1)) ** e
        out[n] = x
        return x
    for n in defs:
        scale(n)
    for n, v in SCALE.items():
        out.setdefault(n, float(v))
    return out


# ---- expressions --------------------------------------------------------------------------------------------------
def ci(n):
    return ['ci', n]


def cn(text, units):
    return ['cn', text, units]


def expr_leaves(e):
    """identifiers and number units in document order"""
    if e[0] == 'ci':
        return [('id', e[1])]
    if e[0] == 'cn':
        return [('unit', e[2])]
    if e[0] in ('diff', 'diff2'):
        return expr_leaves(e[2]) + expr_leaves(e[1])
    out = []
    for a in e[1:]:
        out += expr_leaves(a)
    return out


def expr_xml(e):
    k = e[0]
    if k == 'ci':
        return '<ci>%s</ci>' % e[1]
    if k == 'cn':
        return '<cn cellml:units="%s">%s</cn>' % (e[2], e[1])
    if k == 'diff':
        return '<apply><diff/><bvar>%s</bvar>%s</apply>' % (expr_xml(e[2]), expr_xml(e[1]))
    if k == 'diff2':
        return ('<apply><diff/><bvar>%s<degree><cn cellml:units="dimensionless">2</cn></degree></bvar>%s</apply>'
                % (expr_xml(e[2]), expr_xml(e[1])))
    if k in ('piecewise', 'piece', 'otherwise'):
        return '<%s>%s</%s>' % (k, ''.join(expr_xml(a) for a in e[1:]), k)
    return '<apply><%s/>%s</apply>' % (k, ''.join(expr_xml(a) for a in e[1:]))


def eq_xml(q):
    return '<apply><eq/>%s%s</apply>' % (expr_xml(q[1]), expr_xml(q[2]))


FN_ID = {'exp': 0, 'floor': 3, 'ceiling': 4, 'rem': 42}
REL_ID = {'lt': 2, 'leq': 3, 'gt': 4, 'geq': 5}


def expr_sexp(e, intern):
    k = e[0]
    if k == 'ci':
        return [3, intern(e[1])]
    if k == 'cn':
        return [2, 0, Fraction(Decimal(e[1])), intern(e[2])]
    if k == 'plus':
        return [4] + [expr_sexp(a, intern) for a in e[1:]]
    if k == 'times':
        return [5] + [expr_sexp(a, intern) for a in e[1:]]
    if k == 'minus':
        if len(e) == 2:
            return [5, [0, 0, Fraction(-1)], expr_sexp(e[1], intern)]
        return [4, expr_sexp(e[1], intern), [5, [0, 0, Fraction(-1)], expr_sexp(e[2], intern)]]
    if k == 'divide':
        return [5, expr_sexp(e[1], intern), [6, expr_sexp(e[2], intern), [0, 0, Fraction(-1)]]]
    if k == 'power':
        return [6, expr_sexp(e[1], intern), expr_sexp(e[2], intern)]
    if k in FN_ID:
        return [7, FN_ID[k]] + [expr_sexp(a, intern) for a in e[1:]]
    if k == 'diff':
        return [8, expr_sexp(e[1], intern), expr_sexp(e[2], intern), 1]
    if k == 'diff2':
        return [8, expr_sexp(e[1], intern), expr_sexp(e[2], intern), 2]
    if k == 'piecewise':
        out = [13]
        for pc in e[1:]:
            if pc[0] == 'piece':
                out.append([expr_sexp(pc[1], intern), expr_sexp(pc[2], intern)])
            else:
                out.append([expr_sexp(pc[1], intern), [11]])
        return out
    if k in REL_ID:
        return [9, REL_ID[k], expr_sexp(e[1], intern), expr_sexp(e[2], intern)]
    if k in ('and', 'or'):
        return [10, 0 if k == 'and' else 1] + [expr_sexp(a, intern) for a in e[1:]]
    raise ValueError('expr_sexp: %r' % (e,))


# ---- document -> text ---------------------------------------------------------------------------------------------
HEAD = ('<?xml version="1.0" encoding="UTF-8"?>\n<model name="m" xmlns="http://www.cellml.org/cellml/1.0#" '
        'xmlns:cellml="http://www.cellml.org/cellml/1.0#" xmlns:cmeta="http://www.cellml.org/metadata/1.0#"%s>\n')


RDF_TERMS = ['membrane_voltage', 'time', 'membrane_capacitance', 'cytosolic_calcium_concentration', 'temperature',
             'membrane_fast_sodium_current', 'Membrane_Voltage', 'state_variable', 'rate', 'a', 'z', 'K', 'k']
OXMETA = 'https://chaste.comlab.ox.ac.uk/cellml/ns/oxford-metadata#'


def rdf_xml(doc):
    if not doc.get('rdf'):
        return ''
    out = ('  <rdf:RDF xmlns:rdf="http://www.w3.org/1999/02/22-rdf-syntax-ns#" '
           'xmlns:bqbiol="http://biomodels.net/biology-qualifiers/">\n')
    for cid, terms, split in doc['rdf']:
        if split:
            for t in terms:
                out += '    <rdf:Description rdf:about="#%s"><bqbiol:is rdf:resource="%s%s"/></rdf:Description>\n' % (
                    cid, OXMETA, t)
        else:
            out += '    <rdf:Description rdf:about="#%s">%s</rdf:Description>\n' % (
                cid, ''.join('<bqbiol:is rdf:resource="%s%s"/>' % (OXMETA, t) for t in terms))
    return out + '  </rdf:RDF>\n'


def units_xml(d, indent='  '):
    a = ' name="%s"' % d['name']
    if d['base'] is not None:
        a += ' base_units="%s"' % d['base']
    if d['base'] == 'yes':
        return '%s<units%s/>\n' % (indent, a)
    out = '%s<units%s>\n' % (indent, a)
    for c in d['children']:
        b = ' units="%s"' % c['units']
        for k in ('prefix', 'exponent', 'multiplier', 'offset'):
            if c.get(k) is not None:
                b += ' %s="%s"' % (k, c[k])
        out += '%s  <unit%s/>\n' % (indent, b)
    return out + '%s</units>\n' % indent


def comp_xml(c):
    out = '  <component name="%s">\n' % c['name']
    ui = c.get('units_inside')
    if ui:
        # derived unit (with <unit> children) or a new base unit (no children); own name or shadowing a model-level unit
        name = 'mV' if 'shadow' in str(ui) else 'inner_u'
        if 'base' in str(ui):
            out += units_xml(_def(name, base='yes'), '    ')
        else:
            out += units_xml(_def(name, [_child('second', prefix='micro')]), '    ')
    for v in c['vars']:
        a = ' name="%s" units="%s"' % (v['name'], v['units'])
        if v.get('init') is not None:
            a += ' initial_value="%s"' % v['init']
        for k, key in (('public_interface', 'pub'), ('private_interface', 'priv')):
            if v.get(key) not in (None, 'none') or (v.get(key) == 'none' and v.get('explicit_none')):
                a += ' %s="%s"' % (k, v[key])
        if v.get('cmeta') is not None:
            a += ' cmeta:id="%s"' % v['cmeta']
        out += '    <variable%s/>\n' % a
    if c.get('reaction'):
        out += ('    <reaction reversible="no"><variable_ref variable="%s"><role role="reactant"/></variable_ref>'
                '</reaction>\n' % (c['vars'][0]['name'] if c['vars'] else 'ghost'))
    for m in c['maths']:
        out += '    <math xmlns="http://www.w3.org/1998/Math/MathML">\n'
        for q in m:
            out += '      %s\n' % eq_xml(q)
        out += '    </math>\n'
    return out + '  </component>\n'


def ref_xml(r, indent):
    if not r[1]:
        return '%s<component_ref component="%s"/>\n' % (indent, r[0])
    return ('%s<component_ref component="%s">\n' % (indent, r[0]) + ''.join(ref_xml(x, indent + '  ') for x in r[1])
            + '%s</component_ref>\n' % indent)


def group_xml(g):
    out = '  <group>\n'
    for r in g['rels']:
        out += '    <relationship_ref relationship="%s"/>\n' % r
    for r in g['refs']:
        out += ref_xml(r, '    ')
    return out + '  </group>\n'


def conn_xml(k):
    out = '  <connection>\n    <map_components component_1="%s" component_2="%s"/>\n' % (k['c1'], k['c2'])
    for a, b in k['maps']:
        out += '    <map_variables variable_1="%s" variable_2="%s"/>\n' % (a, b)
    return out + '  </connection>\n'


def default_order(doc):
    return ([['units', i] for i in range(len(doc['units']))] + [['comp', i] for i in range(len(doc['comps']))]
            + [['group', i] for i in range(len(doc['groups']))] + [['conn', i] for i in range(len(doc['conns']))])


def to_xml(doc):
    mc = doc.get('model_cmeta')
    out = HEAD % ('' if mc is None else ' cmeta:id="%s"' % mc)
    order = doc.get('order') or default_order(doc)
    for kind, i in order:
        if kind == 'units':
            out += units_xml(doc['units'][i])
        elif kind == 'comp':
            out += comp_xml(doc['comps'][i])
        elif kind == 'group':
            out += group_xml(doc['groups'][i])
        elif kind == 'conn':
            out += conn_xml(doc['conns'][i])
    for raw in doc.get('raw', []):
        out += raw
    return out + rdf_xml(doc) + '</model>\n'


# ---- document -> model input --------------------------------------------------------------------------------------
class Interner(object):
    def __init__(self):
        self.ids = {}
        self.names = []

    def __call__(self, s):
        if s not in self.ids:
            self.ids[s] = len(self.names) + 1
            self.names.append(s)
        return self.ids[s]

    def name(self, i):
        return self.names[i - 1]


IFACE = {None: 0, 'none': 0, 'in': 1, 'out': 2}
REL = {'encapsulation': 0, 'containment': 1}


def units_table(docs):
    """Run Model/UnitsLoader.v (C03, function 30) on the <units> of each document, plus aliases for the built-in
    names used directly.  -> per document ('ok', {name: vec}) | ('err', code)"""
    import props.c03 as c03
    fams = []
    for d in docs:
        order = d.get('order') or default_order(d)
        defs = [d['units'][i] for k, i in order if k == 'units']
        names = {x['name'] for x in defs}
        al = [_def('zz_alias_' + b, [_child(b)]) for b in BUILTIN_USED if b not in names]
        fams.append(c03.family_sexp(defs + al))
    outs = vlib.model_run(c03.FN, fams)
    res = []
    for d, o in zip(docs, outs):
        if o[0] == -1:
            res.append(('err', o[1]))
            continue
        tbl = {}
        bad = None
        for nm, r in o[1]:
            n = vlib.sexp_str(nm)
            if r[0] == -1:
                bad = r[1]
                continue
            vec = [[k, Fraction(q[0], q[1])] for k, q in r[1]] + [[k, Fraction(q[0], q[1])] for k, q in r[2]]
            if n.startswith('zz_alias_'):
                n = n[len('zz_alias_'):]
            tbl[n] = vec
        res.append(('ok', tbl) if bad is None else ('err', bad))
    return res


def doc_sexp(doc, utab):
    """-> (sexp, interner); utab = units_table entry.  Top-level order is applied (the model sees the
    elements of each kind in file order)."""
    it = Interner()
    order = doc.get('order') or default_order(doc)
    comps = [doc['comps'][i] for k, i in order if k == 'comp']
    groups = [doc['groups'][i] for k, i in order if k == 'group']
    conns = [doc['conns'][i] for k, i in order if k == 'conn']
    if utab[0] == 'err':
        uerr, units = [utab[1]], []
    else:
        uerr, units = [], [[it(n), v] for n, v in sorted(utab[1].items())]
    cs = []
    for c in comps:
        vs = [[it(v['name']), it(v['units']), [] if v.get('init') is None else [Fraction(Decimal(v['init']))],
               IFACE[v.get('pub')], IFACE[v.get('priv')], [] if v.get('cmeta') is None else [it('cmeta:' + v['cmeta'])]]
              for v in c['vars']]
        ms = [[[expr_sexp(q[1], it), expr_sexp(q[2], it)] for q in m] for m in c['maths']]
        cs.append([it(c['name']), vs, ms, bool(c.get('units_inside')), bool(c.get('reaction'))])

    def ref(r):
        return [it(r[0]), [ref(x) for x in r[1]]]
    gs = [[[REL.get(r, 2) for r in g['rels']], [ref(r) for r in g['refs']]] for g in groups]
    ks = [[it(k['c1']), it(k['c2']), [[it(a), it(b)] for a, b in k['maps']]] for k in conns]
    mc = doc.get('model_cmeta')
    return [[] if mc is None else [it('cmeta:' + mc)], uerr, units, cs, gs, ks], it


FAMILY = {1: 'ValueError', 2: 'KeyError', 3: 'AssertionError', 4: 'pint:DimensionalityError', 5: 'TypeError',
          101: 'ValueError', 103: 'pint:UndefinedUnitError', 108: 'AttributeError'}


def decode_model(out, it, doc):
    """model result -> canonical record comparable with impl_record"""
    if out[0] == -2:
        return {'status': 'fuel'}
    if out[0] == -1:
        return {'status': 'err', 'kind': out[1], 'family': FAMILY.get(out[2], 'family%d' % out[2])}
    _, vs, cms, inits, asg, mp, eqs = out
    names = ['%s$%s' % (it.name(c), it.name(n)) for c, n, u in vs]
    rec = {'status': 'ok', 'vars': [], 'eqs': []}
    for (c, n, u), cm, ini, a in zip(vs, cms, inits, asg):
        rec['vars'].append([names[len(rec['vars'])], it.name(u), None if not ini else float(Fraction(ini[0][0], ini[0][1])),
                            None if not cm else it.name(cm[0])[len('cmeta:'):], None if not a else names[a[0]]])
    rec['map'] = sorted([names[t], names[s]] for t, s in mp)

    def refs(x, acc, ders):
        if x[0] == 3:
            acc.add(names[x[1]] if 0 <= x[1] < len(names) else '?%d' % x[1])
        elif x[0] == 8:
            ders.add('d(%s)/d(%s)' % (names[x[1][1]], names[x[2][1]]) if x[1][0] == 3 and x[2][0] == 3 else 'd?')
        elif x[0] in (4, 5, 7, 10):
            for y in x[(2 if x[0] in (7, 10) else 1):]:
                refs(y, acc, ders)
        elif x[0] in (6, 9):
            for y in x[(2 if x[0] == 9 else 1):]:
                refs(y, acc, ders)
        elif x[0] == 13:
            for pc in x[1:]:
                for y in pc:
                    refs(y, acc, ders)
        return acc, ders
    for q in eqs:
        if q[0] == 0:
            l, r = q[1], q[2]
            if l[0] == 3:
                lhs = names[l[1]]
            else:
                lhs = 'd(%s)/d(%s)' % (names[l[1][1]], names[l[2][1]])
            a, d = refs(r, set(), set())
            rec['eqs'].append({'lhs': lhs, 'refs': sorted(a), 'ders': sorted(d), 'kind': 'math'})
        elif q[0] == 1:
            lg = sum(float(Fraction(e[0], e[1])) * math.log(k) for k, e in q[3])
            rec['eqs'].append({'lhs': names[q[1]], 'refs': [names[q[2]]], 'ders': [], 'kind': 'conv', 'cf': math.exp(lg)})
        else:
            rec['eqs'].append({'lhs': names[q[1]], 'refs': [], 'ders': [], 'kind': 'const',
                               'value': float(Fraction(q[2][0], q[2][1]))})
    return rec


# ---- implementation driver ----------------------------------------------------------------------------------------
_TMP = {}


def tmpdir():
    pid = os.getpid()
    if pid not in _TMP:
        _TMP.clear()
        _TMP[pid] = tempfile.mkdtemp(prefix='ldr_')
    return _TMP[pid]


MSG_KIND = [
    (1, r'Defining units inside components'), (3, r'Duplicate component name'), (5, r'Variable \S+ already exists'),
    (6, r'cmeta id .* is already in use'), (7, r'Reactions are not supported'), (8, r'Expecting exactly 1 relationship_ref'),
    (10, r'already added!|multiple parents not allowed'), (24, r'encapsulates itself'), (11, r'Cannot connect components that do not exist'),
    (13, r'Cannot determine the source & target'), (14, r'Target already assigned'), (15, r'Unable to add connections'),
    (17, r'Cannot transfer cmeta id'), (18, r'is defined twice'), (19, r'not found in symbol dict'),
    (21, r'degree of a derivative must be an int'), (22, r'Equation LHS should be'), (23, r'has no initial_value set'),
    (4, r'Unknown unit <|is not currently supported'),
    (2, r'Duplicate unit definition|Cannot create units|Offsets in units|Cannot redefine'),
    (0, r'Invalid or unsupported CellML file'),
]


def classify(e):
    fam = vlib.err_class(e)
    msg = str(e)
    if fam == 'pint:DimensionalityError':
        return fam, 16, msg[:200]
    for k, pat in MSG_KIND:
        if re.search(pat, msg):
            return fam, k, msg[:200]
    if fam == 'KeyError':
        return fam, (12 if '$' in msg else 9), msg[:200]
    return fam, -1, msg[:200]


def load_text(text, seconds=10):
    """-> (model, None) | (None, (family, kind, message)) ; a hang is reported as family 'Timeout'"""
    import cellmlmanip
    path = os.path.join(tmpdir(), 'm%d.cellml' % random.randrange(10 ** 9))
    with open(path, 'w') as f:
        f.write(text)
    try:
        try:
            return vlib.with_alarm(seconds, cellmlmanip.load_model, path), None
        except vlib.Timeout:
            return None, ('Timeout', -2, 'load_model did not return within %d s' % seconds)
        except Exception as e:
            return None, classify(e)
    finally:
        os.unlink(path)


def sym_refs(expr):
    import sympy
    from cellmlmanip.model import Variable
    ders = set()
    for d in expr.atoms(sympy.Derivative):
        ders.add('d(%s)/d(%s)' % (d.args[0].name, d.args[1][0].name))
    ex2 = expr.xreplace({d: sympy.Integer(0) for d in expr.atoms(sympy.Derivative)})
    return sorted(v.name for v in ex2.atoms(Variable)), sorted(ders)


def impl_record(text):
    """load and canonicalise like decode_model"""
    import sympy
    from cellmlmanip.model import Quantity, Variable
    model, err = load_text(text)
    if model is None:
        if err[1] == 0:
            return {'status': 'schema', 'family': err[0], 'msg': err[2]}
        return {'status': 'err', 'family': err[0], 'kind': err[1], 'msg': err[2]}
    rec = {'status': 'ok', 'vars': [], 'eqs': [], 'model': model}
    for v in model.variables():
        un = str(v.units)
        un = re.sub(r'^store\d+_', '', un)
        rec['vars'].append([v.name, un, v.initial_value, v.cmeta_id, None if v.assigned_to is None else v.assigned_to.name])
    for q in model.equations:
        lhs = q.lhs
        if lhs.is_Derivative:
            l = 'd(%s)/d(%s)' % (lhs.args[0].name, lhs.args[1][0].name)
        else:
            l = lhs.name
        a, d = sym_refs(q.rhs)
        r = {'lhs': l, 'refs': a, 'ders': d}
        rhs = q.rhs
        if isinstance(rhs, Quantity):
            r['kind'] = 'const'
            r['value'] = float(rhs)
        elif (isinstance(rhs, sympy.Mul) and len(rhs.args) == 2 and any(isinstance(x, Quantity) for x in rhs.args)
              and any(isinstance(x, Variable) for x in rhs.args) and not lhs.is_Derivative):
            r['kind'] = 'conv?'
            r['cf'] = float([x for x in rhs.args if isinstance(x, Quantity)][0])
        else:
            r['kind'] = 'math'
        rec['eqs'].append(r)
    return rec


def compare_records(mod, imp, ordered=True):
    """None if the model's prediction and the implementation's result agree, else a description"""
    if mod['status'] == 'fuel':
        return 'model ran out of fuel (C17_total broken?)'
    if imp['status'] == 'schema':
        return 'harness: schema-invalid document sent to the model: %s' % imp['msg']
    if mod['status'] == 'err':
        if imp['status'] != 'err':
            return 'model: raises kind %d (%s); implementation: returns a model' % (mod['kind'], mod['family'])
        if imp['family'] != mod['family']:
            return 'model: %s (kind %d); implementation: %s %s' % (mod['family'], mod['kind'], imp['family'], imp['msg'])
        mk = {20: 4}.get(mod['kind'], mod['kind'])
        if mk != 2 and imp['kind'] != mk:
            return 'model: error kind %d; implementation: kind %d (%s)' % (mk, imp['kind'], imp['msg'])
        return None
    if imp['status'] == 'err':
        return 'model: loads; implementation raised %s: %s' % (imp['family'], imp['msg'])
    if len(mod['vars']) != len(imp['vars']):
        return 'variable count: model %d implementation %d' % (len(mod['vars']), len(imp['vars']))
    for a, b in zip(mod['vars'], imp['vars']):
        if a[0] != b[0] or a[1] != b[1] or a[3] != b[3] or a[4] != b[4]:
            return 'variable (name, units, initial value, cmeta id, assigned_to): model %r implementation %r' % (a, b)
        if (a[2] is None) != (b[2] is None) or (a[2] is not None and not close(a[2], b[2])):
            return 'initial value of %s: model %r implementation %r' % (a[0], a[2], b[2])

    def key(r):
        return r['lhs']
    me, ie = mod['eqs'], imp['eqs']
    if not ordered:
        me, ie = sorted(me, key=key), sorted(ie, key=key)
    if len(me) != len(ie):
        return 'equation count: model %d implementation %d' % (len(me), len(ie))
    for a, b in zip(me, ie):
        # SymPy cancels terms when it builds an expression (x - x, x / x): the implementation may mention fewer
        # variables than the document's equation, never others
        if key(a) != key(b) or not set(b['refs']) <= set(a['refs']) or not set(b['ders']) <= set(a['ders']):
            return 'equation (%s): model %r implementation %r' % ('ordered' if ordered else 'as a set', a, b)
        if a['kind'] == 'conv':
            if b['kind'] != 'conv?' or not close(a['cf'], b['cf']):
                return 'conversion equation for %s: model factor %r implementation %r' % (a['lhs'], a['cf'], b)
        elif a['kind'] == 'const':
            if b['kind'] != 'const' or not close(a['value'], b['value']):
                return 'constant equation for %s: model %r implementation %r' % (a['lhs'], a['value'], b)
    return None


def close(a, b, tol=1e-9):
    return abs(a - b) <= tol * max(abs(a), abs(b), 1e-300)


# ---- generator of valid documents ---------------------------------------------------------------------------------
COMP_NAMES = ['A', 'B', 'C', 'D', 'E', 'F', 'G']
NUMS = ['1', '2', '3', '0.5', '1.5', '4', '0.25', '2.5', '10', '0.1']


class Gen(object):
    def __init__(self, seed, ncomp=None, floor_fns=False, case_names=False, flavour=None):
        self.rng = random.Random(seed)
        self.flavour = self.rng.randrange(3) if flavour is None else flavour
        # three SI prefix names (rotating with the seed: every name within 7 consecutive documents) and an integer one
        self.mass = [MASS_PREFIXES[(3 * seed + k) % len(MASS_PREFIXES)] for k in range(3)] + \
                    [MASS_INT_PREFIXES[seed % len(MASS_INT_PREFIXES)]]
        self.pool = {k: list(v) for k, v in POOL.items()}
        self.pool['M'] = [mass_unit(q) for q in self.mass]
        self.floor_fns = floor_fns
        self.case_names = case_names
        self.n = ncomp or self.rng.randint(2, 7)
        self.names = COMP_NAMES[:self.n]
        self.rng.shuffle(self.names)
        self.parent = {}
        self.depth = {}
        for i, c in enumerate(self.names):
            cands = [p for p in self.names[:i] if self.depth[p] < 2]
            if cands and self.rng.random() < 0.65:
                p = self.rng.choice(cands)
                self.parent[c], self.depth[c] = p, self.depth[p] + 1
            else:
                self.parent[c], self.depth[c] = None, 0
        self.vars = {c: [] for c in self.names}          # component -> list of var dicts
        self.imported = {}                              # (owner comp, owner var, comp) -> local var dict
        self.maths = {c: [] for c in self.names}        # component -> list of equations
        self.pairs = {}                                 # frozenset(c1,c2) -> list of (ca, va, cb, vb)
        self.cm = 0
        self.uid = 0

    # -- tree paths
    def chain_up(self, c):
        out = [c]
        while self.parent[out[-1]] is not None:
            out.append(self.parent[out[-1]])
        return out

    def path(self, s, d):
        """canonical route: up*, one sibling step, down* (None when the components are the same)"""
        if s == d:
            return None
        us, ud = self.chain_up(s), self.chain_up(d)
        if d in us:
            return us[:us.index(d) + 1]
        if s in ud:
            return list(reversed(ud[:ud.index(s) + 1]))
        common = [x for x in us if x in ud]
        if common:
            a = common[0]
            return us[:us.index(a)] + list(reversed(ud[:ud.index(a)]))
        return us + list(reversed(ud))

    def fresh(self, c, base):
        used = {v['name'] for v in self.vars[c]}
        n = base
        while n in used:
            self.uid += 1
            n = '%s_%d' % (base, self.uid)
        return n

    def new_var(self, c, name, units, role, init=None):
        v = {'name': self.fresh(c, name), 'units': units, 'init': init, 'pub': 'none', 'priv': 'none', 'cmeta': None,
             'dim': DIM_OF[units], 'role': role, 'owner': None}
        self.vars[c].append(v)
        return v

    def import_var(self, sc, sv, dc, force=None):
        """make the variable sv of component sc available in dc; returns the local variable (or None)"""
        key0 = (sc, sv['name'])
        if sv.get('owner'):
            return None
        p = self.path(sc, dc)
        if p is None:
            return sv
        if len(p) - 1 > 4:
            return None
        cur_c, cur_v = sc, sv
        for nxt in p[1:]:
            k = key0 + (nxt,)
            if k in self.imported:
                cur_c, cur_v = nxt, self.imported[k]
                continue
            if self.parent[nxt] == cur_c:            # down
                a, b = 'priv', 'pub'
            elif self.parent[cur_c] == nxt:          # up
                a, b = 'pub', 'priv'
            else:                                    # siblings
                a, b = 'pub', 'pub'
            if cur_v[a] == 'in':
                return None
            cur_v[a] = 'out'
            lname = cur_v['name'] if self.rng.random() < 0.6 else self.rng.choice(['p', 'q', 'w', 'x', 'y', 'z', 'u'])
            units = cur_v['units'] if self.rng.random() < 0.45 else self.rng.choice(self.pool[cur_v['dim']])
            if force is not None:
                units = force
            nv = self.new_var(nxt, lname, units, 'import')
            nv[b] = 'in'
            nv['owner'] = list(key0)
            self.imported[k] = nv
            pr = frozenset((cur_c, nxt))
            self.pairs.setdefault(pr, []).append((cur_c, cur_v['name'], nxt, nv['name']))
            cur_c, cur_v = nxt, nv
        return cur_v

    # -- dimension-typed expressions over the variables available in component c
    def leaf(self, c, dim, avail):
        cands = [v for v in avail if v['dim'] == dim]
        if cands and self.rng.random() < 0.75:
            return ci(self.rng.choice(cands)['name'])
        return cn(self.rng.choice(NUMS), self.rng.choice(self.pool[dim]))

    def expr(self, c, dim, avail, depth):
        r = self.rng
        if self.floor_fns and dim == '1' and r.random() < 0.5:
            d2 = r.choice(['V', 'T', 'U'])
            f = r.choice(['floor', 'ceiling', 'rem'])
            imp = [v for v in avail if v['dim'] == d2 and v.get('owner')]
            num = ci(r.choice(imp)['name']) if imp else self.leaf(c, d2, avail)
            a = ['divide', ['times', cn(r.choice(['3', '7', '11']), 'dimensionless'), num],
                 cn(r.choice(NUMS), r.choice(self.pool[d2]))]
            if f == 'rem':
                return ['rem', a, cn(r.choice(['2', '3']), 'dimensionless')]
            return [f, a]
        if depth <= 0 or r.random() < 0.25:
            return self.leaf(c, dim, avail)
        k = r.random()
        if k < 0.3:
            # differences only against a number: every variable keeps a positive coefficient, so SymPy cannot cancel
            # a sum to the bare number 0 (which the unit-fix pass refuses in a dimensional context)
            if r.random() < 0.3:
                return ['minus', self.expr(c, dim, avail, depth - 1), cn(r.choice(NUMS), r.choice(self.pool[dim]))]
            return ['plus'] + [self.expr(c, dim, avail, depth - 1) for _ in range(r.choice([2, 2, 3]))]
        if k < 0.5:
            args = [self.expr(c, '1', avail, depth - 1), self.expr(c, dim, avail, depth - 1)]
            r.shuffle(args)
            return ['times'] + args
        if k < 0.7:
            if dim == '1':
                d2 = r.choice(['V', 'T', 'U', '1', 'A', 'H', 'Q', 'N', 'M', 'R', 'J', 'C', 'F', 'L'])
                return ['divide', self.expr(c, d2, avail, depth - 1), self.pos(c, d2, avail)]
            return ['divide', self.expr(c, dim, avail, depth - 1), self.pos(c, '1', avail)]
        if k < 0.8 and dim == '1':
            return ['power', self.expr(c, '1', avail, depth - 1), cn(r.choice(['2', '3']), 'dimensionless')]
        if k < 0.9 and dim == '1':
            # exp(...) sits inside a product: the unit-fix pass refuses a function asked for in a scaled unit (percent)
            d2 = r.choice(['V', 'T', 'U', '1', 'A'])
            base = {'V': 'volt', 'T': 'second', 'U': 'kub', '1': 'dimensionless', 'A': 'm2'}[d2]
            return ['times', ['exp', ['divide', self.leaf(c, d2, avail), cn(r.choice(['50', '100', '400']), base)]],
                    self.leaf(c, '1', avail)]
        if self.floor_fns and dim == '1':
            d2 = r.choice(['V', 'T', 'U'])
            f = r.choice(['floor', 'ceiling', 'rem'])
            a = ['divide', self.leaf(c, d2, avail), cn(r.choice(NUMS), r.choice(self.pool[d2]))]
            if f == 'rem':
                return ['rem', a, cn(r.choice(['2', '3']), 'dimensionless')]
            return [f, a]
        return self.leaf(c, dim, avail)

    def numfree(self, dim, avail):
        """an expression of dimension dim built from variables only (no <cn>), or None"""
        r = self.rng
        vs = [v for v in avail if v['dim'] == dim]
        if len(vs) >= 2:
            a, b = r.sample(vs, 2)
            e = [r.choice(['plus', 'minus', 'plus']), ci(a['name']), ci(b['name'])]
            if len(vs) >= 3 and r.random() < 0.4:
                e = ['plus', e, ci(r.choice([v for v in vs if v is not a and v is not b])['name'])]
            return e
        if len(vs) == 1:
            for d2 in ('V', 'T', 'U', 'A', '1'):
                ws = [v for v in avail if v['dim'] == d2 and v is not vs[0]]
                if len(ws) >= 2 and r.random() < 0.7:
                    p, q = r.sample(ws, 2)
                    return ['times', ci(vs[0]['name']), ['divide', ci(p['name']), ci(q['name'])]]
            return ci(vs[0]['name'])
        return None

    def condition(self, avail):
        """variable <rel> literal-or-variable of the same dimension; prefers a variable received through a connection
        that changes the unit; the literal spans seven decades so that both outcomes and both unit readings occur"""
        r = self.rng
        recv = [v for v in avail if v.get('owner')]
        changed = []
        for v in recv:
            src = [x for x in self.vars[v['owner'][0]] if x['name'] == v['owner'][1]]
            if src and src[0]['units'] != v['units']:
                changed.append(v)
        cands = changed or recv or [v for v in avail]
        if not cands:
            return None
        w = r.choice(cands)
        same = [v for v in avail if v['dim'] == w['dim'] and v is not w]
        if same and r.random() < 0.25:
            rhs = ci(r.choice(same)['name'])
        else:
            val = Decimal(r.choice(NUMS)).scaleb(r.randint(-3, 3))
            rhs = cn(format(val, 'f'), r.choice([w['units'], w['units'], r.choice(self.pool[w['dim']])]))
        return [r.choice(['lt', 'gt', 'leq', 'geq']), ci(w['name']), rhs]

    def piecewise(self, units, avail):
        """pieces that need no conversion (numbers in the unit of the left-hand side, local variables declared in that
        unit), conditions on received variables, sometimes joined with and / or"""
        r = self.rng

        def piece_value():
            same = [v for v in avail if v['units'] == units]
            if same and r.random() < 0.4:
                return ci(r.choice(same)['name'])
            return cn(r.choice(NUMS), units)
        out = ['piecewise']
        for _ in range(r.randint(1, 2)):
            c1 = self.condition(avail)
            if c1 is None:
                return None
            if r.random() < 0.3:
                c2 = self.condition(avail)
                c1 = [r.choice(['and', 'or']), c1, c2]
            out.append(['piece', piece_value(), c1])
        out.append(['otherwise', piece_value()])
        return out

    def pos(self, c, dim, avail):
        """a denominator that cannot vanish: a positive number"""
        return cn(self.rng.choice(NUMS), self.rng.choice(self.pool[dim]))

    def build(self):
        r = self.rng
        tc = r.choice(self.names)
        tvar = self.new_var(tc, r.choice(['t', 'time']), r.choice(self.pool['T']), 'time')
        owned = []          # (comp, var) defined so far (importable)
        order = list(self.names)
        r.shuffle(order)
        for c in order:
            nown = r.randint(1, 4)
            for j in range(nown):
                dim = r.choice(['V', 'V', 'T', '1', 'U', 'A', 'H', 'Q', 'N', 'M', 'R', 'J', 'C', 'R', 'F', 'F', 'L'])
                units = r.choice(self.pool[dim])
                kind = r.choice(['state', 'const', 'comp', 'comp'])
                base = r.choice(['v', 'x', 'y', 'g', 'k', 'a', 'b', 'm', 'h'])
                # imports for this definition
                avail = [v for v in self.vars[c] if v['role'] != 'time' and v.get('defined', True)]
                for (oc, ov) in r.sample(owned, min(len(owned), r.randint(0, 2))):
                    if oc != c:
                        lv = self.import_var(oc, ov, c)
                        if lv is not None and lv not in avail:
                            avail.append(lv)
                if kind == 'const':
                    v = self.new_var(c, base, units, 'const', init=r.choice(NUMS))
                elif kind == 'comp':
                    v = self.new_var(c, base, units, 'comp')
                    v['defined'] = False
                    rhs = self.numfree(dim, avail) if r.random() < 0.3 else None
                    if rhs is None and r.random() < 0.25:
                        rhs = self.piecewise(units, avail)
                    if rhs is None:
                        rhs = self.expr(c, dim, avail, r.randint(1, 3))
                    # sometimes: a derivative on the right-hand side
                    states = [(oc, ov) for (oc, ov) in owned if ov['role'] == 'state' and ov['dim'] == dim]
                    if states and r.random() < 0.35:
                        oc, ov = r.choice(states)
                        lx = self.import_var(oc, ov, c)
                        lt = self.import_var(tc, tvar, c)
                        if lx is not None and lt is not None:
                            rhs = ['plus', rhs, ['times', ['diff', ci(lx['name']), ci(lt['name'])],
                                                 cn(r.choice(NUMS), r.choice(self.pool['T']))]]
                    self.maths[c].append(['eq', ci(v['name']), rhs])
                    v['defined'] = True
                else:
                    lt = self.import_var(tc, tvar, c)
                    if lt is None:
                        v = self.new_var(c, base, units, 'const', init=r.choice(NUMS))
                    else:
                        v = self.new_var(c, base, units, 'state', init=r.choice(NUMS))
                        avail2 = avail + [v]
                        nf = self.numfree(dim, avail2) if r.random() < 0.3 else None
                        if nf is not None:
                            rhs = ['divide', nf, ci(lt['name'])]       # ds/dt = (x - y) / t, no number at all
                        else:
                            rhs = ['divide', self.expr(c, dim, avail2, r.randint(1, 2)), self.pos(c, 'T', avail)]
                        self.maths[c].append(['eq', ['diff', ci(v['name']), ci(lt['name'])], rhs])
                owned.append((c, v))
        self.add_pingpong(owned)
        self.add_zeros(owned)
        if self.case_names:
            self.add_case_pairs(owned)
        # cmeta ids
        for c in self.names:
            for v in self.vars[c]:
                if r.random() < 0.25:
                    if v['role'] == 'import':
                        continue
                    self.cm += 1
                    v['cmeta'] = 'id%d' % self.cm
        for k, nv in self.imported.items():
            if r.random() < 0.15:
                # the direct source must be free of ids and have no other id-carrying target
                src = None
                for lst in self.pairs.values():
                    for (ca, va, cb, vb) in lst:
                        if cb == k[2] and vb == nv['name']:
                            src = (ca, va)
                sv = [v for v in self.vars[src[0]] if v['name'] == src[1]][0]
                others = [self.lookup(cb, vb) for lst in self.pairs.values() for (ca, va, cb, vb) in lst
                          if (ca, va) == src]
                if sv['cmeta'] is None and all(o['cmeta'] is None for o in others):
                    self.cm += 1
                    nv['cmeta'] = 'id%d' % self.cm
        return self.document()

    def add_zeros(self, owned):
        """literals 0 and -0 (also 0.0 / -0.0) in the SAME units in different equations and components, and a literal
        written twice inside one equation; nothing else uses these variables (no division by them)"""
        r = self.rng
        u = r.choice(self.pool[r.choice(['V', 'T', 'M', 'A', 'L'])])
        ca = r.choice(self.names)
        cb = r.choice([c for c in self.names if c != ca] or [ca])
        plan = [(ca, 'zpos', '0'), (cb, 'zneg', '-0'), (ca, 'zneg2', '-0.0'), (cb, 'zpos2', '0.0')]
        r.shuffle(plan)
        made = {}
        for c, name, lit in plan:
            v = self.new_var(c, name, u, 'comp')
            self.maths[c].append(['eq', ci(v['name']), cn(lit, u)])
            owned.append((c, v))
            made[name] = (c, v)
        c, y = made['zneg']
        k = r.choice(['2', '3', '0.5'])
        z = self.new_var(c, 'zsq', u, 'comp')
        self.maths[c].append(['eq', ci(z['name']), ['times', ci(y['name']), cn(k, 'dimensionless'), cn(k, 'dimensionless')]])
        owned.append((c, z))
        for cc in {ca, cb}:
            r.shuffle(self.maths[cc])

    def add_pingpong(self, owned):
        """two unrelated unit-changing connections between the SAME pair of units in OPPOSITE directions (u1 -> u2 for
        one variable, u2 -> u1 for another), preferably in different <connection> elements"""
        r = self.rng
        if len(self.names) < 2:
            return
        for _ in range(r.randint(1, 2)):
            dim = r.choice(['V', 'T', 'M', 'R', 'J', 'C', 'A', 'F', 'L', 'V'])
            if len(self.pool[dim]) < 2:
                continue
            u1, u2 = r.sample(self.pool[dim], 2)
            src = r.choice(self.names)
            others = [c for c in self.names if c != src]
            d1 = r.choice(others)
            d2 = r.choice(others)
            p = self.new_var(src, 'ping', u1, 'const', init=r.choice(NUMS))
            q = self.new_var(src, 'pong', u2, 'const', init=r.choice(NUMS))
            owned.append((src, p))
            owned.append((src, q))
            self.import_var(src, p, d1, force=u2)
            self.import_var(src, q, d2, force=u1)

    def add_case_pairs(self, owned):
        """variables of one component whose names differ only in case, in the same topological layer (constants, or
        computed from the same operand), and a variable that depends on all of them"""
        r = self.rng
        for c in self.names:
            if r.random() < 0.2:
                continue
            dim = r.choice(['V', 'T', '1', 'U', 'A'])
            pairs = r.sample([('k', 'K'), ('rate', 'Rate'), ('i_x', 'I_x'), ('gna', 'gNa'), ('v_m', 'V_m'), ('tau', 'TAU')],
                             r.randint(2, 3))
            members = []
            kind = r.choice(['const', 'comp', 'mixed'])
            seedv = None
            if kind != 'const':
                seedv = self.new_var(c, 'seed', r.choice(self.pool[dim]), 'const', init=r.choice(NUMS))
                owned.append((c, seedv))
            for lo, up in pairs:
                names = [lo, up]
                r.shuffle(names)
                for n in names:
                    if n in {v['name'] for v in self.vars[c]}:
                        continue
                    if kind == 'const' or (kind == 'mixed' and r.random() < 0.5):
                        v = self.new_var(c, n, r.choice(self.pool[dim]), 'const', init=r.choice(NUMS))
                    else:
                        v = self.new_var(c, n, r.choice(self.pool[dim]), 'comp')
                        self.maths[c].append(['eq', ci(v['name']), ['times', cn(r.choice(NUMS), 'dimensionless'),
                                                                    ci(seedv['name'])]])
                    members.append(v)
                    owned.append((c, v))
            if len(members) >= 2:
                tot = self.new_var(c, 'total', r.choice(self.pool[dim]), 'comp')
                self.maths[c].append(['eq', ci(tot['name']), ['plus'] + [ci(v['name']) for v in members]])
                owned.append((c, tot))
            eqs = self.maths[c]
            r.shuffle(eqs)

    def lookup(self, c, n):
        return [v for v in self.vars[c] if v['name'] == n][0]

    def document(self):
        r = self.rng
        comps = []
        for c in self.names:
            ms = self.maths[c]
            maths = []
            i = 0
            while i < len(ms):                       # split the equations over one or more <math> elements
                k = r.randint(1, len(ms) - i)
                maths.append(ms[i:i + k])
                i += k
            vs = list(self.vars[c])
            r.shuffle(vs)
            comps.append({'name': c, 'vars': vs, 'maths': maths, 'units_inside': False, 'reaction': False})
        if r.random() < 0.6:
            # control: a component that declares no variables (and has no maths) is legal and must load
            comps.append({'name': 'Zbare', 'vars': [], 'maths': [], 'units_inside': False, 'reaction': False})
        r.shuffle(comps)
        # encapsulation groups: every parent/child edge once, trees cut at random places
        children = {}
        for c in self.names:
            if self.parent[c] is not None:
                children.setdefault(self.parent[c], []).append(c)
        groups = []
        pending = [c for c in self.names if c in children and (self.parent[c] is None)]

        def tree(c, cut):
            kids = []
            for k in children.get(c, []):
                if k in children and r.random() < 0.3:
                    cut.append(k)
                    kids.append([k, []])
                else:
                    kids.append(tree(k, cut))
            r.shuffle(kids)
            return [c, kids]
        roots = []
        while pending:
            c = pending.pop()
            cut = []
            roots.append(tree(c, cut))
            pending += cut
        r.shuffle(roots)
        i = 0
        while i < len(roots):
            k = r.randint(1, len(roots) - i)
            groups.append({'rels': ['encapsulation'], 'refs': roots[i:i + k]})
            i += k
        if r.random() < 0.3 and len(self.names) >= 2:
            a, b = r.sample(self.names, 2)
            groups.append({'rels': ['containment'], 'refs': [[a, [[b, []]]]]})
        r.shuffle(groups)
        conns = []
        for pr, lst in self.pairs.items():
            c1, c2 = sorted(pr)
            if r.random() < 0.5:
                c1, c2 = c2, c1
            maps = []
            for (ca, va, cb, vb) in lst:
                maps.append([va, vb] if ca == c1 else [vb, va])
            r.shuffle(maps)
            conns.append({'c1': c1, 'c2': c2, 'maps': maps})
        r.shuffle(conns)
        doc = {'model_cmeta': None, 'units': unit_defs(self.flavour, self.mass), 'comps': comps, 'groups': groups, 'conns': conns,
               'flows': [list(x) for lst in self.pairs.values() for x in lst]}
        r.shuffle(doc['units'])
        order = default_order(doc)
        if r.random() < 0.7:
            r.shuffle(order)
        doc['order'] = order
        # RDF: several bqbiol:is annotations on one variable (in one rdf:Description or in several)
        ided = [v['cmeta'] for c in comps for v in c['vars'] if v.get('cmeta')]
        doc['rdf'] = []
        for cid in r.sample(ided, min(len(ided), 3)):
            terms = r.sample(RDF_TERMS, r.randint(2, 3))
            doc['rdf'].append([cid, terms, r.random() < 0.5])
        return doc


def gen_valid(seed, ncomp=None, floor_fns=False, case_names=False, flavour=None):
    return Gen(seed, ncomp, floor_fns, case_names, flavour).build()


# ---- the 324 two-component interface documents --------------------------------------------------------------------
IFACES = ['none', 'in', 'out']
RELS = ['siblings', 'parent12', 'parent21', 'unrelated']


def two_comp_doc(p1, v1, p2, v2, rel, swap=False, u1='volt', u2='mV'):
    """component A (variable x: pub p1, priv v1) connected to B (x: pub p2, priv v2); C is a third component."""
    def var(p, v, u, init):
        d = {'name': 'x', 'units': u, 'init': None, 'pub': p, 'priv': v, 'cmeta': None, 'dim': 'V', 'role': 'enum',
             'explicit_none': True}
        if p != 'in' and v != 'in':
            d['init'] = init
        return d
    comps = [{'name': 'A', 'vars': [var(p1, v1, u1, '2')], 'maths': [], 'units_inside': False, 'reaction': False},
             {'name': 'B', 'vars': [var(p2, v2, u2, '3')], 'maths': [], 'units_inside': False, 'reaction': False},
             {'name': 'C', 'vars': [], 'maths': [], 'units_inside': False, 'reaction': False}]
    refs = {'siblings': [], 'parent12': [['A', [['B', []]]]], 'parent21': [['B', [['A', []]]]],
            'unrelated': [['C', [['B', []]]]]}[rel]
    groups = [{'rels': ['encapsulation'], 'refs': refs}] if refs else []
    k = {'c1': 'A', 'c2': 'B', 'maps': [['x', 'x']]}
    if swap:
        k = {'c1': 'B', 'c2': 'A', 'maps': [['x', 'x']]}
    doc = {'model_cmeta': None, 'units': unit_defs(0), 'comps': comps, 'groups': groups, 'conns': [k]}
    doc['order'] = default_order(doc)
    doc['enum'] = [p1, v1, p2, v2, rel]
    return doc


def spec_valid_pair(p1, v1, p2, v2, rel):
    """CellML 1.0 3.4.6: which interface each end exposes to the other; valid iff one is `in` and the other `out`"""
    if (p1 == 'in' and v1 == 'in') or (p2 == 'in' and v2 == 'in'):
        return False
    if rel == 'siblings':
        a, b = p1, p2
    elif rel == 'parent12':
        a, b = v1, p2
    elif rel == 'parent21':
        a, b = p1, v2
    else:
        return False
    return {a, b} == {'in', 'out'}


def all_two_comp():
    out = []
    for p1 in IFACES:
        for v1 in IFACES:
            for p2 in IFACES:
                for v2 in IFACES:
                    for rel in RELS:
                        out.append((p1, v1, p2, v2, rel))
    return out


# ---- reference semantics of the DOCUMENT (independent of the loader model) ----------------------------------------
class NoValue(Exception):
    pass


class Tie(Exception):
    """a condition compares two equal quantities (a variable with a copy of itself): rounding decides, no verdict"""


def eval_expr(e, env, denv):
    k = e[0]
    if k == 'ci':
        if e[1] not in env:
            raise NoValue(e[1])
        return env[e[1]]
    if k == 'cn':
        return float(e[1])
    if k == 'diff':
        key = (e[1][1], e[2][1])
        if key not in denv:
            raise NoValue(key)
        return denv[key]
    if k == 'piecewise':
        for pc in e[1:]:
            if pc[0] == 'otherwise' or eval_expr(pc[2], env, denv):
                return eval_expr(pc[1], env, denv)
        raise NoValue('no piece applies')
    if k in ('lt', 'leq', 'gt', 'geq'):
        x, y = eval_expr(e[1], env, denv), eval_expr(e[2], env, denv)
        if close(x, y, 1e-9):
            raise Tie()
        return {'lt': x < y, 'leq': x <= y, 'gt': x > y, 'geq': x >= y}[k]
    if k in ('and', 'or'):
        vals = [eval_expr(a, env, denv) for a in e[1:]]
        return all(vals) if k == 'and' else any(vals)
    a = [eval_expr(x, env, denv) for x in e[1:]]
    if k == 'plus':
        return sum(a)
    if k == 'minus':
        return -a[0] if len(a) == 1 else a[0] - a[1]
    if k == 'times':
        p = 1.0
        for x in a:
            p *= x
        return p
    if k == 'divide':
        return a[0] / a[1]
    if k == 'power':
        return a[0] ** a[1]
    if k == 'exp':
        return math.exp(a[0])
    if k == 'floor':
        return float(math.floor(a[0]))
    if k == 'ceiling':
        return float(math.ceil(a[0]))
    if k == 'rem':
        return a[0] - a[1] * math.floor(a[0] / a[1])
    raise ValueError(k)


def ref_solve(doc, seed):
    """-> {(comp, var): numeric value in the declared unit}, {(comp, x, t): numeric derivative}, classes, chosen SI states
    Every component is evaluated in its own units; a connection makes both ends the same physical quantity."""
    rng = random.Random(seed)
    units = {}
    parent = {}

    def find(x):
        while parent[x] != x:
            parent[x] = parent[parent[x]]
            x = parent[x]
        return x
    for c in doc['comps']:
        for v in c['vars']:
            units[(c['name'], v['name'])] = v['units']
            parent[(c['name'], v['name'])] = (c['name'], v['name'])
    for k in doc['conns']:
        for a, b in k['maps']:
            parent[find((k['c1'], a))] = find((k['c2'], b))
    scales = doc_scales(doc)
    sc = {k: scales[u] for k, u in units.items()}
    si = {}                     # class -> SI value
    dsi = {}                    # (xclass, tclass) -> SI derivative
    states = set()
    for c in doc['comps']:
        for m in c['maths']:
            for q in m:
                if q[1][0] == 'diff':
                    states.add(find((c['name'], q[1][1][1])))
                    tcl = find((c['name'], q[1][2][1]))
                    si.setdefault(tcl, rng.uniform(0.5, 2.0))
                for e in walk(q[2]):
                    if e[0] == 'diff':
                        tcl = find((c['name'], e[2][1]))
                        si.setdefault(tcl, rng.uniform(0.5, 2.0))
    chosen = {}
    for cl in sorted(states):
        si[cl] = rng.uniform(0.5, 2.0) * sc[cl]
        chosen[cl] = si[cl]
    for c in doc['comps']:
        for v in c['vars']:
            key = (c['name'], v['name'])
            if v.get('init') is not None and find(key) not in states:
                si[find(key)] = float(v['init']) * sc[key]
    # physical (SI) reading of an equation: every leaf is a physical quantity -- a variable is its value times the
    # scale of its declared unit, a number its value times the scale of its cellml:units; for equations whose
    # operands share one unit per dimension this is the numeric reading of the component
    todo = [(c['name'], q) for c in doc['comps'] for m in c['maths'] for q in m]
    progress = True
    while todo and progress:
        progress = False
        rest = []
        for cname, q in todo:
            env = {}
            denv = {}
            for c in doc['comps']:
                if c['name'] == cname:
                    for v in c['vars']:
                        cl = find((cname, v['name']))
                        if cl in si:
                            env[v['name']] = si[cl]
                    for vx in c['vars']:
                        for vt in c['vars']:
                            kk = (find((cname, vx['name'])), find((cname, vt['name'])))
                            if kk in dsi:
                                denv[(vx['name'], vt['name'])] = dsi[kk]
            try:
                val = eval_expr(si_numbers(q[2], scales), env, denv)
            except NoValue:
                rest.append((cname, q))
                continue
            progress = True
            if q[1][0] == 'diff':
                x, t = (cname, q[1][1][1]), (cname, q[1][2][1])
                dsi[(find(x), find(t))] = val
            else:
                x = (cname, q[1][1])
                si[find(x)] = val
        todo = rest
    vals = {k: si[find(k)] / sc[k] for k in units if find(k) in si}
    return vals, dsi, {k: find(k) for k in units}, chosen, si, (len(todo) == 0)


def expr_magnitude(e, env, denv, emag):
    """largest absolute value met while evaluating e (operands, their own bounds, intermediate results): bounds the
    rounding noise a cancellation can leave"""
    try:
        v = abs(eval_expr(e, env, denv))
    except (NoValue, Tie, OverflowError, ZeroDivisionError, ValueError, TypeError):
        v = 0.0
    if e[0] == 'ci':
        return max(v, emag.get(e[1], 0.0))
    if e[0] == 'cn':
        return v
    return max([v] + [expr_magnitude(a, env, denv, emag) for a in e[1:] if isinstance(a, list)])


def ref_magnitudes(doc, si, dsi, classes):
    """(comp, var) -> bound (in the variable's own unit) on the magnitudes that enter the computation of its
    connection class, propagated through the equations"""
    scales = doc_scales(doc)
    sc = {(c['name'], v['name']): scales[v['units']] for c in doc['comps'] for v in c['vars']}
    cmag = {}
    for _ in range(6):
        for c in doc['comps']:
            env = {v['name']: si[classes[(c['name'], v['name'])]] for v in c['vars']
                   if classes[(c['name'], v['name'])] in si}
            emag = {v['name']: cmag.get(classes[(c['name'], v['name'])], 0.0) for v in c['vars']}
            denv = {}
            for vx in c['vars']:
                for vt in c['vars']:
                    kk = (classes[(c['name'], vx['name'])], classes[(c['name'], vt['name'])])
                    if kk in dsi:
                        denv[(vx['name'], vt['name'])] = dsi[kk]
            for m in c['maths']:
                for q in m:
                    if q[1][0] == 'ci':
                        cl = classes[(c['name'], q[1][1])]
                        cmag[cl] = max(cmag.get(cl, 0.0), expr_magnitude(si_numbers(q[2], scales), env, denv, emag))
    return {k: cmag.get(cl, 0.0) / sc[k] for k, cl in classes.items()}


def si_numbers(e, scales):
    if e[0] == 'cn':
        return ['cn', repr(float(e[1]) * scales[e[2]]), 'dimensionless']
    if e[0] == 'ci':
        return e
    return [e[0]] + [si_numbers(a, scales) for a in e[1:]]


def walk(e):
    yield e
    if e[0] not in ('ci', 'cn'):
        for a in e[1:]:
            if isinstance(a, list):
                for x in walk(a):
                    yield x


def closed_system(model):
    """the equation system of a loaded model must be closed: every variable a right-hand side mentions is a state, the
    free variable or has a definition; Model.graph and get_equations_for must succeed.  -> list of complaints"""
    import sympy
    from cellmlmanip.model import Variable
    bad = []
    defined, states, free = set(), set(), set()
    for q in model.equations:
        if q.lhs.is_Derivative:
            states.add(q.lhs.args[0])
            free.add(q.lhs.args[1][0])
        else:
            defined.add(q.lhs)
    for q in model.equations:
        rhs = q.rhs
        for d in rhs.atoms(sympy.Derivative):
            if d.args[0] not in states or d.args[1][0] not in free:
                bad.append('equation %s mentions %s, which no equation of the model defines' % (q, d))
        rhs0 = rhs.xreplace({d: sympy.Integer(0) for d in rhs.atoms(sympy.Derivative)})
        for v in rhs0.atoms(Variable):
            if v not in defined and v not in states and v not in free:
                bad.append('equation %s mentions %s, which is neither defined nor a state nor the free variable'
                           % (q, v.name))
    for name, fn in (('Model.graph', lambda: model.graph),
                     ('get_equations_for', lambda: model.get_equations_for(
                         model.get_derivatives() + model.get_derived_quantities()))):
        try:
            fn()
        except Exception as e:
            bad.append('%s raises %s: %s' % (name, vlib.err_class(e), str(e)[:150]))
    return bad


def impl_values(model, doc, classes, si):
    """numeric value of every flat variable, computed from the loaded model alone (equations made consistent with
    convert_expression_recursively(eq, None)), states and the free variable taken from the SI values `si` of their
    connection classes.  -> {flat name: value}"""
    import sympy
    from cellmlmanip.model import Quantity, Variable
    units = {'%s$%s' % (c['name'], v['name']): v['units'] for c in doc['comps'] for v in c['vars']}
    cls = {'%s$%s' % k: cl for k, cl in classes.items()}
    scales = doc_scales(doc)
    defs, odes = {}, {}
    for q in model.equations:
        q2 = model.units.convert_expression_recursively(q, None)
        if q2.lhs.is_Derivative:
            odes[(q2.lhs.args[0], q2.lhs.args[1][0])] = q2.rhs
        else:
            defs[q2.lhs] = q2.rhs
    statevars = {x for (x, t) in odes}
    freevars = {t for (x, t) in odes}
    cache = {}

    def val(v, stack=()):
        if v in cache:
            return cache[v]
        if v in stack:
            raise NoValue('cycle at %s' % v.name)
        if v in defs and v not in statevars:
            r = ev(defs[v], stack + (v,))
        elif v in statevars or v in freevars:
            # only states and the free variable take their value from outside the equation system
            cl = cls[v.name]
            if cl not in si:
                raise NoValue(v.name)
            r = si[cl] / scales[units[v.name]]
        else:
            raise NoValue('%s has no definition in the loaded model' % v.name)
        cache[v] = r
        return r

    def ev(ex, stack):
        sub = {}
        for d in ex.atoms(sympy.Derivative):
            key = (d.args[0], d.args[1][0])
            if key not in odes or d.args[1][1] != 1:
                raise NoValue(str(d))
            sub[d] = sympy.Float(ev(odes[key], stack))
        ex = ex.xreplace(sub)
        sub = {}
        for a in ex.atoms(Variable):
            sub[a] = sympy.Float(val(a, stack), 17)
        for a in ex.atoms(Quantity):
            sub[a] = sympy.Float(float(a), 17)
        return float(ex.xreplace(sub).evalf(17))
    out = {}
    why = {}
    for v in model.variables():
        tgt = v.assigned_to
        if tgt is None:
            why[v.name] = 'it is connected to nothing that gives it a value'
            continue
        try:
            out[v.name] = val(tgt)
        except NoValue as e:
            why[v.name] = str(e)
    out['?why'] = why
    dout = {}
    for (x, t), rhs in odes.items():
        try:
            dout[(x.name, t.name)] = ev(rhs, ())
        except NoValue:
            pass
    return out, dout


# ---- permutations (C15) -------------------------------------------------------------------------------------------
PERM_KINDS = ['units', 'units_reversed', 'units_forward'] + ['units_triple_%d' % i for i in range(6)] + [ 'groups', 'connections', 'map_variables', 'ends', 'maths', 'components']


def permute(doc, kind, rng):
    """a copy of doc with the elements of one kind rearranged; None if nothing to rearrange"""
    d = copy.deepcopy(doc)
    order = d.get('order') or default_order(d)

    def shuffle_kind(k):
        pos = [i for i, (kk, _) in enumerate(order) if kk == k]
        if len(pos) < 2:
            return False
        items = [order[i] for i in pos]
        for _ in range(5):
            s = items[:]
            rng.shuffle(s)
            if s != items:
                break
        else:
            return False
        for i, it in zip(pos, s):
            order[i] = it
        return True
    if kind.startswith('units_triple_'):
        # X, Xs and a unit built on Xs (m, ms, per_ms / u, us, per_us) written LAST in each of their six orders: the
        # work-list of _add_units meets them first
        import itertools
        trip = [['m', 'ms', 'per_ms'], ['u', 'us', 'per_us']][rng.randrange(2)]
        idx = {u['name']: i for i, u in enumerate(d['units'])}
        if any(n not in idx for n in trip):
            return None
        perm = list(itertools.permutations(trip))[int(kind[-1])]
        mine = [['units', idx[n]] for n in perm]
        rest = [it for it in order if it not in mine]
        d['order'] = rest + mine
        return d
    if kind in ('units_reversed', 'units_forward'):
        # every <units> before (after) the units it is defined from: chains of depth >= 3 and diamonds written in
        # reverse (forward) dependency order
        defs = {u['name']: u for u in d['units']}

        def depth(n, k=0):
            u = defs.get(n)
            if u is None or u['base'] == 'yes' or k > 20:
                return 0
            return 1 + max([depth(c['units'], k + 1) for c in u['children']] + [0])
        pos = [i for i, (kk, _) in enumerate(order) if kk == 'units']
        items = sorted((order[i] for i in pos), key=lambda it: (depth(d['units'][it[1]]['name']), d['units'][it[1]]['name']),
                       reverse=(kind == 'units_reversed'))
        if items == [order[i] for i in pos]:
            return None
        for i, it in zip(pos, items):
            order[i] = it
        d['order'] = order
        return d
    if kind in ('units', 'groups', 'connections', 'components'):
        k = {'units': 'units', 'groups': 'group', 'connections': 'conn', 'components': 'comp'}[kind]
        if not shuffle_kind(k):
            return None
        d['order'] = order
        return d
    if kind == 'map_variables':
        ok = False
        for k in d['conns']:
            if len(k['maps']) > 1:
                s = k['maps'][:]
                rng.shuffle(s)
                if s != k['maps']:
                    k['maps'] = s
                    ok = True
        return d if ok else None
    if kind == 'ends':
        if not d['conns']:
            return None
        for k in d['conns']:
            if rng.random() < 0.6:
                k['c1'], k['c2'] = k['c2'], k['c1']
                k['maps'] = [[b, a] for a, b in k['maps']]
        return d
    if kind == 'maths':
        ok = False
        for c in d['comps']:
            for m in c['maths']:
                if len(m) > 1:
                    s = m[:]
                    rng.shuffle(s)
                    if s != m:
                        m[:] = s
                        ok = True
            if len(c['maths']) > 1:
                s = c['maths'][:]
                rng.shuffle(s)
                if s != c['maths']:
                    c['maths'] = s
                    ok = True
        return d if ok else None
    raise ValueError(kind)


# ---- fault injection (C17) ----------------------------------------------------------------------------------------
def find_var(doc, c, n):
    for cc in doc['comps']:
        if cc['name'] == c:
            for v in cc['vars']:
                if v['name'] == n:
                    return v
    return None


def comp_parent(doc):
    par = {}
    for g in doc['groups']:
        if g['rels'] != ['encapsulation']:
            continue

        def go(r, p):
            if p is not None:
                par[r[0]] = p
            for x in r[1]:
                go(x, r[0])
        for r in g['refs']:
            go(r, None)
    return par


def relation(doc, c1, c2):
    par = comp_parent(doc)
    if par.get(c1) == par.get(c2):
        return 'siblings'
    if par.get(c2) == c1:
        return 'parent12'
    if par.get(c1) == c2:
        return 'parent21'
    return 'unrelated'


def relevant(doc, k, a, b):
    """(variable 1, its interface key, variable 2, its interface key, relation) for a map_variables"""
    rel = relation(doc, k['c1'], k['c2'])
    v1, v2 = find_var(doc, k['c1'], a), find_var(doc, k['c2'], b)
    k1, k2 = {'siblings': ('pub', 'pub'), 'parent12': ('priv', 'pub'), 'parent21': ('pub', 'priv'),
              'unrelated': ('pub', 'pub')}[rel]
    return v1, k1, v2, k2, rel


def flow_target(doc, k, a, b):
    """(component, variable dict) of the receiving end of a map_variables, by the generator's record of the data flow
    (robust against interface faults applied earlier); falls back to the interfaces"""
    for ca, va, cb, vb in doc.get('flows', []):
        if (ca, va, cb, vb) == (k['c1'], a, k['c2'], b) or (ca, va, cb, vb) == (k['c2'], b, k['c1'], a):
            return cb, find_var(doc, cb, vb)
    v1, k1, v2, k2, rel = relevant(doc, k, a, b)
    return (k['c2'], v2) if v2[k2] == 'in' else (k['c1'], v1)


def remote_names(doc, c, c2, q):
    """{identifier of c: identifier of c2} when every variable of equation q of component c is visible in c2 (same
    ultimate owner, reached through connections), else None"""
    def owner(comp, v):
        return tuple(v['owner']) if v.get('owner') else (comp['name'], v['name'])
    there = {}
    for w in c2['vars']:
        there.setdefault(owner(c2, w), w['name'])
    out = {}
    for kind, n in expr_leaves(q[1]) + expr_leaves(q[2]):
        if kind != 'id':
            return None
        v = [x for x in c['vars'] if x['name'] == n]
        if not v or owner(c, v[0]) not in there:
            return None
        out[n] = there[owner(c, v[0])]
    return out


def rename_expr(e, names):
    if e[0] == 'ci':
        return ci(names[e[1]])
    if e[0] == 'cn':
        return e
    return [e[0]] + [rename_expr(a, names) for a in e[1:]]


CELLML_BUILTINS = {'ampere', 'becquerel', 'candela', 'celsius', 'coulomb', 'dimensionless', 'farad', 'gram', 'gray', 'henry',
                   'hertz', 'joule', 'katal', 'kelvin', 'kilogram', 'liter', 'litre', 'lumen', 'lux', 'meter', 'metre',
                   'mole', 'newton', 'ohm', 'pascal', 'radian', 'second', 'siemens', 'sievert', 'steradian', 'tesla', 'volt',
                   'watt', 'weber'}


def lookalike_units(doc, u, k):
    """an UNDEFINED units name that a unit library could resolve by itself from the defined name u: plural, SI-prefixed
    (long and short), other case; the k-th admissible one"""
    defined = {d['name'] for d in doc['units']} | CELLML_BUILTINS
    cands = [u + 's', 'k' + u, 'milli' + u, 'm' + u, u.swapcase(), u.capitalize(), 'kilo' + u, u + 'es']
    cands = [c for c in cands if c not in defined and c != u]
    return cands[k % len(cands)] if cands else 'nosuchunit'


def builtin_override_sites():
    """every built-in unit name x {derived, new base unit} x {used by a variable, unused}"""
    # celsius is special: cellmlmanip does not support it, so it is not one of its built-in names
    return [['builtin_override', n, form, used] for n in sorted(CELLML_BUILTINS - {'celsius'}) for form in ('derived', 'base')
            for used in (True, False)]


def fault_sites(doc):
    """every (class, site) applicable to this valid document"""
    out = []
    for i, c in enumerate(doc['comps']):
        for form in ('derived', 'base', 'shadow_base', 'shadow_derived'):
            out.append(['units_in_component', i, form])
        if c['vars']:
            out.append(['reaction', i])
        out.append(['duplicate_component', i])
        for j, v in enumerate(c['vars']):
            out.append(['undefined_variable_units', i, j])
            out.append(['undefined_variable_units', i, j, 'lookalike'])
            if v.get('init') is not None and v['role'] == 'const':
                out.append(['initial_value_and_equation', i, j])
        for mi, m in enumerate(c['maths']):
            for qi, q in enumerate(m):
                for kind in ('sum', 'number', 'second_order'):
                    out.append(['bad_lhs', i, mi, qi, kind])
                out.append(['two_definitions', i, mi, qi])
                if not any(k == 'unit' for k, _ in expr_leaves(q[1]) + expr_leaves(q[2])):
                    # a VERBATIM repeat of an equation made of variables only: in the same <math>, in a new <math>,
                    # and in every other component that sees all its variables through connections
                    out.append(['verbatim_duplicate', i, mi, qi, 'same_math'])
                    out.append(['verbatim_duplicate', i, mi, qi, 'new_math'])
                    for j, c2 in enumerate(doc['comps']):
                        if j != i and remote_names(doc, c, c2, q) is not None:
                            out.append(['verbatim_duplicate', i, mi, qi, j])
                nl = len(expr_leaves(q[2]))
                for li in range(nl):
                    lk = expr_leaves(q[2])[li][0]
                    out.append(['undefined_identifier' if lk == 'id' else 'undefined_number_units', i, mi, qi, li])
                    if lk == 'unit':
                        out.append(['undefined_number_units', i, mi, qi, li, 'lookalike'])
    for i, k in enumerate(doc['conns']):
        out.append(['missing_component', i, 1])
        out.append(['missing_component', i, 2])
        for j, (a, b) in enumerate(k['maps']):
            out.append(['missing_variable', i, j, 1])
            out.append(['missing_variable', i, j, 2])
            for f in ('both_sources', 'both_receivers', 'no_direction_source', 'no_direction_target',
                      'incompatible_units', 'definition_through_connection', 'second_feed'):
                out.append([f, i, j])
    for i, u in enumerate(doc['units']):
        if u['base'] != 'yes':
            # the schema allows an offset only on a simple unit (one <unit> child without exponent)
            if len(u['children']) == 1 and u['children'][0].get('exponent') is None:
                out.append(['offset_units', i])
            out.append(['undefined_units_reference', i])
            out.append(['unit_cycle', i])
        out.append(['duplicate_units', i])
    out.append(['builtin_override'])
    # a units element that can never be resolved AND is defined twice under the same name (the work-list of _add_units
    # must still notice that it makes no progress)
    nb = [i for i, u in enumerate(doc['units']) if u['base'] != 'yes']
    for i in nb[:2] + nb[-1:]:
        out.append(['unresolvable_duplicate', 'undefined', i])
        out.append(['unresolvable_duplicate', 'cycle', i])
    out.append(['unresolvable_duplicate', 'self', 0])
    out.append(['unresolvable_duplicate', 'self', 1])
    # faults inside a component that declares NO variables (an existing one, or a new one)
    for kind in ('reaction', 'undefined_identifier', 'number_lhs', 'second_definition_elsewhere'):
        out.append(['bare_component', kind, 'new'])
        for i, c in enumerate(doc['comps']):
            if not c['vars']:
                out.append(['bare_component', kind, i])
    # cycles in the encapsulation hierarchy: close the chain of a nested component back to its root; a self-reference;
    # two or three top-level components in a ring
    par = comp_parent(doc)
    names = [c['name'] for c in doc['comps']]
    roots = [n for n in names if n not in par]
    for n in names:
        if n in par:
            out.append(['cyclic_encapsulation', 'close', n])
    for n in roots[:3]:
        out.append(['cyclic_encapsulation', 'self', n])
    if len(roots) >= 2:
        out.append(['cyclic_encapsulation', 'ring', roots[:2]])
    if len(roots) >= 3:
        out.append(['cyclic_encapsulation', 'ring', roots[:3]])
    return out


def replace_leaf(e, idx, new, counter=None):
    """replace the idx-th leaf (document order) of e"""
    if counter is None:
        counter = [0]
    if e[0] in ('ci', 'cn'):
        counter[0] += 1
        return new(e) if counter[0] - 1 == idx else e
    if e[0] in ('diff', 'diff2'):
        t = replace_leaf(e[2], idx, new, counter)
        y = replace_leaf(e[1], idx, new, counter)
        return [e[0], y, t]
    return [e[0]] + [replace_leaf(a, idx, new, counter) for a in e[1:]]


def apply_fault(doc, f):
    """-> faulty copy, or None when the site does not admit the fault"""
    d = copy.deepcopy(doc)
    k = f[0]
    if k == 'units_in_component':
        d['comps'][f[1]]['units_inside'] = f[2] if len(f) > 2 else True
    elif k == 'reaction':
        d['comps'][f[1]]['reaction'] = True
    elif k == 'duplicate_component':
        c = copy.deepcopy(d['comps'][f[1]])
        for v in c['vars']:
            v['cmeta'] = None
        d['comps'].append(c)
        if d.get('order'):
            d['order'].append(['comp', len(d['comps']) - 1])
    elif k == 'undefined_variable_units':
        v = d['comps'][f[1]]['vars'][f[2]]
        v['units'] = lookalike_units(d, v['units'], f[1] + f[2]) if len(f) > 3 else 'nosuchunit'
    elif k == 'initial_value_and_equation':
        c = d['comps'][f[1]]
        v = c['vars'][f[2]]
        c['maths'].append([['eq', ci(v['name']), cn('1', v['units'])]])
    elif k == 'bad_lhs':
        q = d['comps'][f[1]]['maths'][f[2]][f[3]]
        if f[4] == 'sum':
            q[1] = ['plus', q[1], q[1]]
        elif f[4] == 'number':
            q[1] = cn('1', 'dimensionless')
        else:
            if q[1][0] != 'diff':
                return None
            q[1] = ['diff2', q[1][1], q[1][2]]
    elif k == 'two_definitions':
        m = d['comps'][f[1]]['maths'][f[2]]
        q = copy.deepcopy(m[f[3]])
        m.append(['eq', q[1], ['times', cn('2', 'dimensionless'), q[2]]])
    elif k == 'verbatim_duplicate':
        c = d['comps'][f[1]]
        q = copy.deepcopy(c['maths'][f[2]][f[3]])
        if f[4] == 'same_math':
            c['maths'][f[2]].append(q)
        elif f[4] == 'new_math':
            c['maths'].append([q])
        else:
            c2 = d['comps'][f[4]]
            names = remote_names(d, c, c2, q)
            if names is None:
                return None
            c2['maths'].append([['eq', rename_expr(q[1], names), rename_expr(q[2], names)]])
    elif k in ('undefined_identifier', 'undefined_number_units'):
        q = d['comps'][f[1]]['maths'][f[2]][f[3]]
        if k == 'undefined_identifier':
            q[2] = replace_leaf(q[2], f[4], lambda e: ci('nosuchvar'))
        else:
            if len(f) > 5:
                q[2] = replace_leaf(q[2], f[4], lambda e: cn(e[1], lookalike_units(d, e[2], f[2] + f[3] + f[4])))
            else:
                q[2] = replace_leaf(q[2], f[4], lambda e: cn(e[1], 'nosuchunit'))
    elif k == 'missing_component':
        d['conns'][f[1]]['c%d' % f[2]] = 'Nowhere'
    elif k == 'missing_variable':
        d['conns'][f[1]]['maps'][f[2]][f[3] - 1] = 'nosuchvar'
    elif k in ('both_sources', 'both_receivers', 'no_direction_source', 'no_direction_target'):
        kk = d['conns'][f[1]]
        a, b = kk['maps'][f[2]]
        v1, k1, v2, k2, rel = relevant(d, kk, a, b)
        if rel == 'unrelated' or {v1[k1], v2[k2]} != {'in', 'out'}:
            return None
        src, ks, tgt, kt = (v1, k1, v2, k2) if v1[k1] == 'out' else (v2, k2, v1, k1)
        other = {'pub': 'priv', 'priv': 'pub'}
        if k == 'both_sources':
            tgt[kt] = 'out'
        elif k == 'both_receivers':
            if src[other[ks]] == 'in' or src.get('init') is not None:
                return None          # would be schema-invalid
            src[ks] = 'in'
        elif k == 'no_direction_source':
            src[ks] = 'none'
        else:
            tgt[kt] = 'none'
    elif k == 'incompatible_units':
        kk = d['conns'][f[1]]
        a, b = kk['maps'][f[2]]
        tc, tgt = flow_target(d, kk, a, b)
        tgt['units'] = 'ampere' if tgt['dim'] != 'T' else 'kilogram'
    elif k == 'definition_through_connection':
        kk = d['conns'][f[1]]
        a, b = kk['maps'][f[2]]
        tc, tv = flow_target(d, kk, a, b)
        # the ultimate source must have a definition of its own for this to be a second definition
        oc, ov = tv['owner']
        own = find_var(d, oc, ov)
        if own['role'] not in ('const', 'comp', 'state'):
            return None
        for c in d['comps']:
            if c['name'] == tc:
                c['maths'].append([['eq', ci(tv['name']), cn('1', tv['units'])]])
    elif k == 'second_feed':
        kk = d['conns'][f[1]]
        a, b = kk['maps'][f[2]]
        v1, k1, v2, k2, rel = relevant(d, kk, a, b)
        tc, tv = flow_target(d, kk, a, b)
        kt = k2 if tc == kk['c2'] and tv is v2 else k1
        # a new sibling-or-parent source for the same target
        par = comp_parent(d)
        if kt != 'pub':
            return None
        newc = {'name': 'Znew', 'vars': [{'name': 'feed', 'units': tv['units'], 'init': '1', 'pub': 'out', 'priv': 'none',
                                          'cmeta': None, 'dim': tv['dim'], 'role': 'const'}],
                'maths': [], 'units_inside': False, 'reaction': False}
        d['comps'].append(newc)
        if par.get(tc) is not None:
            d['groups'].append({'rels': ['encapsulation'], 'refs': [[par[tc], [['Znew', []]]]]})
        d['conns'].append({'c1': 'Znew', 'c2': tc, 'maps': [['feed', tv['name']]]})
        if d.get('order'):
            d['order'].append(['comp', len(d['comps']) - 1])
            if par.get(tc) is not None:
                d['order'].append(['group', len(d['groups']) - 1])
            d['order'].append(['conn', len(d['conns']) - 1])
    elif k == 'unresolvable_duplicate':
        def add_units(u, front=False):
            d['units'].append(u)
            if d.get('order'):
                if front:
                    d['order'].insert(0, ['units', len(d['units']) - 1])
                else:
                    d['order'].append(['units', len(d['units']) - 1])
        if f[1] == 'undefined':
            u = d['units'][f[2]]
            u['children'][0]['units'] = 'nosuchunit'
            add_units(copy.deepcopy(u), front=(f[2] % 2 == 0))
        elif f[1] == 'cycle':
            u = d['units'][f[2]]
            add_units(_def('cyc', [_child(u['name'])]))
            u['children'][0]['units'] = 'cyc'
            add_units(copy.deepcopy(u), front=(f[2] % 2 == 1))
        else:
            loop = _def('loopu', [_child('loopu', multiplier='2')])
            add_units(loop, front=bool(f[2]))
            add_units(copy.deepcopy(loop))
    elif k == 'bare_component':
        if f[2] == 'new':
            c = {'name': 'Zbare2', 'vars': [], 'maths': [], 'units_inside': False, 'reaction': False}
            d['comps'].append(c)
            if d.get('order'):
                d['order'].insert(len(d['order']) // 2, ['comp', len(d['comps']) - 1])
        else:
            c = d['comps'][f[2]]
        if f[1] == 'reaction':
            c['reaction'] = True
        elif f[1] == 'undefined_identifier':
            c['maths'].append([['eq', ci('ghost'), cn('1', 'dimensionless')]])
        elif f[1] == 'number_lhs':
            c['maths'].append([['eq', cn('1', 'dimensionless'), cn('2', 'dimensionless')]])
        else:
            # an identifier of ANOTHER component used here: undefined in this component
            other = [x for x in d['comps'] if x['vars']]
            if not other:
                return None
            c['maths'].append([['eq', ci(other[0]['vars'][0]['name']), cn('1', other[0]['vars'][0]['units'])]])
    elif k == 'cyclic_encapsulation':
        par = comp_parent(d)
        new = []
        if f[1] == 'close':
            root = f[2]
            seen = {root}
            while root in par and par[root] not in seen:      # the document may already carry a cycle (fault pairs)
                root = par[root]
                seen.add(root)
            new.append({'rels': ['encapsulation'], 'refs': [[f[2], [[root, []]]]]})
        elif f[1] == 'self':
            new.append({'rels': ['encapsulation'], 'refs': [[f[2], [[f[2], []]]]]})
        else:
            ring = f[2]
            for a, b in zip(ring, ring[1:] + ring[:1]):
                new.append({'rels': ['encapsulation'], 'refs': [[a, [[b, []]]]]})
        for g in new:
            d['groups'].append(g)
            if d.get('order'):
                d['order'].append(['group', len(d['groups']) - 1])
    elif k == 'offset_units':
        d['units'][f[1]]['children'][0]['offset'] = '1.5'
    elif k == 'undefined_units_reference':
        d['units'][f[1]]['children'][0]['units'] = 'nosuchunit'
    elif k == 'unit_cycle':
        u = d['units'][f[1]]
        d['units'].append(_def('cyc', [_child(u['name'])]))
        u['children'][0]['units'] = 'cyc'
        if d.get('order'):
            d['order'].append(['units', len(d['units']) - 1])
    elif k == 'duplicate_units':
        d['units'].append(copy.deepcopy(d['units'][f[1]]))
        if d.get('order'):
            d['order'].append(['units', len(d['units']) - 1])
    elif k == 'builtin_override':
        # ['builtin_override'] or ['builtin_override', name, 'derived' | 'base', used]
        name = f[1] if len(f) > 1 else 'volt'
        form = f[2] if len(f) > 2 else 'derived'
        child = 'second' if name != 'second' else 'metre'
        d['units'].append(_def(name, base='yes') if form == 'base' else _def(name, [_child(child)]))
        if d.get('order'):
            d['order'].append(['units', len(d['units']) - 1])
        if len(f) > 3 and f[3]:
            # a fresh, unconnected variable declared in the redefined unit
            c = [x for x in d['comps'] if x['vars']][0]
            c['vars'].append({'name': 'bu_user', 'units': name, 'init': '1', 'pub': 'none', 'priv': 'none', 'cmeta': None,
                              'dim': '?', 'role': 'const', 'owner': None})
    else:
        raise ValueError(k)
    d.setdefault('faults', []).append(f)
    return d


STRUCTURAL_FAULTS = ['second_map_components', 'second_map_components_first', 'second_map_components_last',
                     'second_map_components_other_pair', 'second_map_components_other_pair_last',
                     'connection_without_map_variables', 'empty_connection', 'group_without_relationship_ref',
                     'group_without_component_ref', 'component_in_component', 'variable_outside_component',
                     'unit_outside_units', 'units_in_units', 'base_units_with_children',
                     'map_variables_without_variable_2', 'map_components_without_component_2', 'component_without_name',
                     'model_without_name', 'variable_ref_outside_reaction', 'role_without_role', 'connection_in_component']
SCHEMA_FAULTS = ['no_units_attribute', 'unknown_element', 'both_interfaces_in', 'initial_value_on_in',
                 'map_variables_outside_connection', 'no_map_components', 'bad_identifier', 'empty_units',
                 'not_xml'] + STRUCTURAL_FAULTS


def schema_fault_text(doc, kind):
    """text of a schema-invalid variant (implementation only)"""
    text = to_xml(doc)
    if kind == 'no_units_attribute':
        return re.sub(r'(<variable name="[^"]+") units="[^"]+"', r'\1', text, count=1)
    if kind == 'unknown_element':
        return text.replace('</model>', '  <gadget/>\n</model>')
    if kind == 'both_interfaces_in':
        return re.sub(r'(<variable name="[^"]+" units="[^"]+")[^/]*/>',
                      r'\1 public_interface="in" private_interface="in"/>', text, count=1)
    if kind == 'initial_value_on_in':
        if 'public_interface="in"' not in text:
            return None
        return text.replace('public_interface="in"', 'public_interface="in" initial_value="1"', 1)
    if kind == 'map_variables_outside_connection':
        return text.replace('</model>', '  <map_variables variable_1="a" variable_2="b"/>\n</model>')
    if kind == 'no_map_components':
        if '<map_components' not in text:
            return None
        return re.sub(r'<map_components [^>]*/>', '', text, count=1)
    if kind == 'bad_identifier':
        return re.sub(r'<component name="([^"]+)"', r'<component name="1 \1"', text, count=1)
    if kind == 'empty_units':
        return text.replace('</model>', '  <units name="emptyu"></units>\n</model>')
    if kind == 'not_xml':
        return text.replace('</model>', '<model>')
    # ---- structural violations: cardinality / order / placement of children, which the Python code does not check
    m = re.search(r'<map_components component_1="([^"]+)" component_2="([^"]+)"/>\n', text)
    conn = re.search(r'  <connection>\n.*?  </connection>\n', text, re.S)
    comps = re.findall(r'<component name="([^"]+)"', text)
    if kind.startswith('second_map_components'):
        if m is None or conn is None:
            return None
        if 'other_pair' in kind:
            others = [c for c in comps if c not in (m.group(1), m.group(2))]
            if not others:
                return None
            extra = '    <map_components component_1="%s" component_2="%s"/>\n' % (m.group(1), others[0])
        else:
            extra = '    ' + m.group(0).strip() + '\n'
        block = conn.group(0)
        if kind.endswith('_last'):
            new = block.replace('  </connection>\n', extra + '  </connection>\n')
        elif kind.endswith('_first'):
            new = block.replace('  <connection>\n', '  <connection>\n' + extra, 1)
        else:
            new = block.replace(m.group(0), m.group(0) + extra, 1) if m.group(0) in block else None
        return None if new is None else text.replace(block, new, 1)
    if kind == 'connection_without_map_variables':
        if conn is None:
            return None
        return text.replace(conn.group(0), re.sub(r'    <map_variables [^>]*/>\n', '', conn.group(0)), 1)
    if kind == 'empty_connection':
        return text.replace('</model>', '  <connection/>\n</model>')
    if kind == 'group_without_relationship_ref':
        if '<group>' not in text:
            return None
        g = re.search(r'  <group>\n.*?  </group>\n', text, re.S).group(0)
        return text.replace(g, re.sub(r'    <relationship_ref [^>]*/>\n', '', g), 1)
    if kind == 'group_without_component_ref':
        return text.replace('</model>', '  <group><relationship_ref relationship="encapsulation"/></group>\n</model>')
    if kind == 'component_in_component':
        return text.replace('  </component>\n', '    <component name="inner_c"/>\n  </component>\n', 1)
    if kind == 'variable_outside_component':
        return text.replace('</model>', '  <variable name="stray" units="dimensionless"/>\n</model>')
    if kind == 'unit_outside_units':
        return text.replace('</model>', '  <unit units="second"/>\n</model>')
    if kind == 'units_in_units':
        return text.replace('</model>', '  <units name="outer_u"><units name="inner_u2"><unit units="second"/></units></units>\n</model>')
    if kind == 'base_units_with_children':
        return text.replace('</model>', '  <units name="bu" base_units="yes"><unit units="second"/></units>\n</model>')
    if kind == 'map_variables_without_variable_2':
        if '<map_variables' not in text:
            return None
        return re.sub(r'(<map_variables variable_1="[^"]+") variable_2="[^"]+"', r'\1', text, count=1)
    if kind == 'map_components_without_component_2':
        if m is None:
            return None
        return text.replace(m.group(0), '<map_components component_1="%s"/>\n' % m.group(1), 1)
    if kind == 'component_without_name':
        return re.sub(r'<component name="[^"]+"', '<component', text, count=1)
    if kind == 'model_without_name':
        return text.replace('<model name="m"', '<model', 1)
    if kind == 'variable_ref_outside_reaction':
        return text.replace('  </component>\n', '    <variable_ref variable="x"/>\n  </component>\n', 1)
    if kind == 'role_without_role':
        return text.replace('  </component>\n', '    <reaction><variable_ref variable="x"><role/></variable_ref></reaction>\n'
                            '  </component>\n', 1)
    if kind == 'connection_in_component':
        if conn is None:
            return None
        return text.replace('  </component>\n', conn.group(0) + '  </component>\n', 1)
    raise ValueError(kind)


# ---- observation of one load in a fresh interpreter (C15) ---------------------------------------------------------
def observe(path):
    """everything ordered that a caller can see of load_model(path)"""
    import cellmlmanip
    text = open(path).read()
    rec = impl_record(text)
    model = rec.pop('model', None)
    if model is None:
        return rec

    def q(fn):
        try:
            return fn()
        except Exception as e:
            return 'raises ' + vlib.err_class(e)

    def strip(s):
        return re.sub(r'store\d+_', '', s)
    rec['var_order'] = [v.name for v in model.variables()]
    rec['eq_order'] = [strip(str(e)) for e in model.equations]
    rec['states'] = q(lambda: [v.name for v in model.get_state_variables()])
    rec['derived'] = q(lambda: [v.name for v in model.get_derived_quantities()])
    rec['derivatives'] = q(lambda: [strip(str(v)) for v in model.get_derivatives()])
    # the non-default variants that return lists: same document => the same list in every process
    rec['states_unsorted'] = q(lambda: [v.name for v in model.get_state_variables(sort=False)])
    rec['derived_unsorted'] = q(lambda: [v.name for v in model.get_derived_quantities(sort=False)])
    rec['derivatives_unsorted'] = q(lambda: [strip(str(v)) for v in model.get_derivatives(sort=False)])
    def outputs():
        return model.get_derivatives() + model.get_derived_quantities()
    rec['eqs_for'] = q(lambda: [strip(str(e)) for e in model.get_equations_for(outputs())])
    rec['eqs_for_units'] = q(lambda: [strip(str(e)) for e in model.get_equations_for(outputs(), strip_units=False)])
    rec['eqs_for_top'] = q(lambda: [strip(str(e)) for e in model.get_equations_for(outputs(), recurse=False)])
    rec['eqs_for_each'] = q(lambda: [[v.name] + [strip(str(e)) for e in model.get_equations_for([v], strip_units=False)]
                                     for v in sorted(model.get_derived_quantities(), key=lambda x: x.name)[:8]])
    rec['free'] = q(lambda: model.get_free_variable().name)
    # every number of every equation with all its digits (a Quantity prints 6 significant digits), keyed by left-hand
    # side, and the base-unit expansion of the unit of every variable: independent of any order in the file
    def numbers():
        from cellmlmanip.model import Quantity
        return sorted([strip(str(e.lhs)), sorted(float(a).hex() for a in e.rhs.atoms(Quantity))] for e in model.equations)
    rec['eq_numbers'] = q(numbers)
    rec['unit_meaning'] = q(lambda: sorted([v.name, strip(model.units.format(v.units, base_units=True))]
                                           for v in model.variables()))
    # annotations: for every variable the ordered list of ontology terms and the display name derived from them
    rec['annotations'] = q(lambda: [[v.name, model.get_ontology_terms_by_variable(v), model.get_ontology_terms_by_variable(v, OXMETA),
                                     model.get_display_name(v), model.get_display_name(v, OXMETA)] for v in model.variables()])
    return rec


def observe_main(argv):
    paths = json.load(open(argv[0]))
    out = []
    for p in paths:
        try:
            out.append(observe(p))
        except Exception as e:
            out.append({'status': 'harness-error', 'msg': repr(e)[:300]})
    json.dump(out, open(argv[1], 'w'))


def run_observer(task):
    """task = (hash seed, [paths], out file); runs a fresh interpreter"""
    import subprocess
    import sys
    seed, paths, out = task
    lst = out + '.in'
    json.dump(paths, open(lst, 'w'))
    env = dict(os.environ)
    env['PYTHONHASHSEED'] = str(seed)
    env['PYTHONPATH'] = '%s:%s' % (vlib.REPO, os.path.join(vlib.VERIF, 'tools'))
    p = subprocess.run([sys.executable, '-c', 'import sys, loader_gen; loader_gen.observe_main(sys.argv[1:])', lst, out],
                       env=env, capture_output=True, text=True, timeout=900)
    if p.returncode != 0:
        return [{'status': 'harness-error', 'msg': p.stderr[-400:]}] * len(paths)
    return json.load(open(out))
