"""Prints the markdown table of seeded changes (DESIGN.md section 11.6) from seeded/*/meta.json."""
import glob
import json
import os
import re

rows = []
for f in sorted(glob.glob(os.path.join(os.path.dirname(__file__), '..', 'seeded', '*', 'meta.json')),
                key=lambda p: (re.sub(r'-\d+$', '', p.split('/')[-2]), int((re.findall(r'-(\d+)$', p.split('/')[-2]) or ['1'])[0]))):
    m = json.load(open(f))
    name = f.split('/')[-2]
    summ = (m.get('summary') or '').replace('\n', ' ').replace('|', '/')
    summ = summ if len(summ) < 230 else summ[:227] + '...'
    res = (m.get('status') or m.get('check_result') or '').replace('\n', ' ').replace('|', '/')
    res = res if len(res) < 260 else res[:257] + '...'
    rows.append('| %s | %s | %s |' % (name, summ, res))
print('| seed | change | outcome of `./check <property> quick` on the changed tree |')
print('|---|---|---|')
print('\n'.join(rows))
