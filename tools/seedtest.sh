#!/bin/bash
# usage: tools/seedtest.sh <patch.diff> <demo.py> <prop> [more props...]
# Confirms a seeded change (compiles, suite unchanged, demo fails with / passes without) and runs the given checks on it.
# Works in a scratch worktree of /repo (never edits /repo); removes it afterwards.
set -u
PATCH=$1; DEMO=$2; shift 2
PROPS="$@"
WT=/tmp/wt_seedtest_$$
git -C /repo worktree add -q $WT HEAD || exit 2
trap "git -C /repo worktree remove --force $WT" EXIT
cd $WT
echo "== demo on unchanged tree"; PYTHONPATH=$WT /venv/bin/python -W ignore $DEMO >/tmp/seed_demo_clean.out 2>&1; echo "exit $? : $(tail -1 /tmp/seed_demo_clean.out)"
git apply $PATCH || { echo "PATCH DOES NOT APPLY"; exit 2; }
git diff --stat | tail -1
echo "== demo with change"; PYTHONPATH=$WT /venv/bin/python -W ignore $DEMO >/tmp/seed_demo_mut.out 2>&1; echo "exit $? : $(tail -2 /tmp/seed_demo_mut.out | tr '\n' ' ')"
echo "== test suite with change"; PYTHONPATH=$WT /venv/bin/python -m pytest -q -p no:cacheprovider 2>&1 | tail -1
for P in $PROPS; do
  echo "== check $P quick on the changed tree"
  (cd /verif && PYTHONPATH=$WT:/verif/tools VERIF_REPO=$WT PYTHONHASHSEED=0 VERIF_JOBS=${VERIF_JOBS:-10} /venv/bin/python -W ignore tools/check.py $P quick 2>&1 | grep -E "VIOLATION|what:|^\[$P" | head -4)
done
