"""Writes /verif/MANIFEST.json from the table below (keeps it valid as properties are added)."""
import json
import os

VERIF = os.path.dirname(os.path.dirname(os.path.abspath(__file__)))
ALL = ['C%02d' % i for i in range(1, 20)]

CLAIMED = {}   # filled from manifest.d/Cxx.json (one file per claimed property)


def load_snippets():
    """a property is claimed once its snippet, theorem file and harness are committed (git ls-files)"""
    import glob
    import subprocess
    tracked = set(subprocess.run(['git', '-C', VERIF, 'ls-files'], capture_output=True, text=True).stdout.split())
    for path in sorted(glob.glob(os.path.join(VERIF, 'manifest.d', 'C*.json'))):
        pid = os.path.basename(path)[:-5]
        need = ['manifest.d/%s.json' % pid, 'coq/Props/%s.v' % pid, 'tools/props/%s.py' % pid.lower()]
        if all(n in tracked for n in need):
            CLAIMED[pid] = json.load(open(path))


REASON_PENDING = 'check not built yet in this round (model and theorem under construction; see DESIGN.md section 9)'


def main():
    load_snippets()
    checks = []
    for pid in ALL:
        if pid not in CLAIMED:
            continue
        c = CLAIMED[pid]
        checks.append({
            'property_id': pid,
            'quick_cmd': './check %s quick' % pid,
            'thorough_cmd': './check %s thorough' % pid,
            'evidence_file': 'evidence/%s.json' % pid,
            'replay_cmd_template': './check %s --replay {path}' % pid,
            'engine': 'coq-proof+correspondence',
            'level_claimed': {'category': 'proof', 'text': c['text'], 'design_ref': c['design_ref']},
            'level_note': c['note'],
            'technique': c['technique'],
        })
    man = {
        'version': 1,
        'setup_cmd': './setup.sh',
        'hooks': {
            'guard': 'CELLMLMANIP_VERIF',
            'enable': 'no hooks are needed: every observable is reached through the public API; ./check exports CELLMLMANIP_VERIF=1 (unused by /repo)',
            'baseline_off_cmd': 'cd /repo && /venv/bin/python -m pytest -ra -q -p no:cacheprovider --timeout=900 --continue-on-collection-errors',
            'source_commits': [],
            'add_only': True,
        },
        'engines': [{
            'name': 'coq-proof+correspondence', 'path': 'coq/ tools/ extract/',
            'serves_properties': sorted(CLAIMED),
            'kind_free_text': 'Coq 8.16 theorems about executable Gallina models; models tied to /repo by translators '
                              '(tools/translate_*.py -> coq/Gen) and by a correspondence check (extracted OCaml vs implementation); '
                              'property oracle on the implementation for replays',
        }],
        'checks': checks,
        'notes': 'fix: commits in /repo and KNOWN_FINDINGS.txt record genuine defects; see DESIGN.md sections 6 and 11 (as built: status per property, findings and their disposition, false alarms, trusted base, seeded changes).',
        'not_applicable': [{'property_id': p, 'reason': REASON_PENDING} for p in ALL if p not in CLAIMED],
    }
    with open(os.path.join(VERIF, 'MANIFEST.json'), 'w') as f:
        json.dump(man, f, indent=1)


if __name__ == '__main__':
    main()
