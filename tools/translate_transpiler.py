"""Translator: /repo/cellmlmanip/parser.py (class Transpiler) -> coq/Gen/TranspileTables_gen.v

  _SIMPLE_MATHML_TO_SYMPY_CLASSES   dict literal  tag -> sympy.<name>
  MATHML_NARY_RELATIONS             set literal of tags
  MATHML_UNARY_OPERATORS            set literal of tags (operators wrapped to take exactly one operand)
  MATHML_CONTAINERS                 set literal of tags (elements that may have child elements)
  Transpiler.__init__ self.handlers dict literal  tag -> self.<method>
  and the shape of the code that installs the simple table over the explicit handlers.

Fail-closed: any unrecognised shape is an error (non-zero exit)."""
import ast
import os
import re
import sys

sys.path.insert(0, os.path.dirname(os.path.abspath(__file__)))
from vlib import REPO, COQ, write_if_changed


def die(msg):
    raise SystemExit('translator transpiler: ' + msg)


def coq_name(s):
    if not re.fullmatch(r'[A-Za-z0-9_]+', s):
        die('unexpected name %r' % s)
    return '(N "%s")' % s


def module_assign(tree, name):
    found = [n for n in tree.body if isinstance(n, ast.Assign) and len(n.targets) == 1
             and isinstance(n.targets[0], ast.Name) and n.targets[0].id == name]
    if len(found) != 1:
        die('%s: expected exactly one module-level assignment, found %d' % (name, len(found)))
    return found[0].value


def str_const(e, what):
    if not (isinstance(e, ast.Constant) and isinstance(e.value, str)):
        die('%s: non-string key/element' % what)
    return e.value


def main():
    src = open(os.path.join(REPO, 'cellmlmanip', 'parser.py')).read()
    tree = ast.parse(src)

    # ---- _SIMPLE_MATHML_TO_SYMPY_CLASSES
    v = module_assign(tree, '_SIMPLE_MATHML_TO_SYMPY_CLASSES')
    if not isinstance(v, ast.Dict):
        die('_SIMPLE_MATHML_TO_SYMPY_CLASSES is not a dict literal')
    simple = []
    for k, val in zip(v.keys, v.values):
        tag = str_const(k, 'simple table')
        if not (isinstance(val, ast.Attribute) and isinstance(val.value, ast.Name) and val.value.id == 'sympy'):
            die('simple table value for %r is not sympy.<name>' % tag)
        simple.append((tag, val.attr))
    if len({t for t, _ in simple}) != len(simple):
        die('duplicate key in the simple table')
    # the public copy must be a plain .copy() of the private table
    c = module_assign(tree, 'SIMPLE_MATHML_TO_SYMPY_CLASSES')
    if ast.dump(c) != ast.dump(ast.parse('_SIMPLE_MATHML_TO_SYMPY_CLASSES.copy()').body[0].value):
        die('SIMPLE_MATHML_TO_SYMPY_CLASSES is not _SIMPLE_MATHML_TO_SYMPY_CLASSES.copy()')

    # ---- MATHML_NARY_RELATIONS
    v = module_assign(tree, 'MATHML_NARY_RELATIONS')
    if not isinstance(v, ast.Set):
        die('MATHML_NARY_RELATIONS is not a set literal')
    nary = sorted(str_const(e, 'MATHML_NARY_RELATIONS') for e in v.elts)
    sets = {}
    for name in ('MATHML_UNARY_OPERATORS', 'MATHML_CONTAINERS'):
        v = module_assign(tree, name)
        if not isinstance(v, ast.Set):
            die('%s is not a set literal' % name)
        sets[name] = sorted(str_const(e, name) for e in v.elts)

    # ---- Transpiler.__init__: self.handlers = {...}; for tag_name in SIMPLE...: self.handlers[tag_name] = self._simple_operator_handler
    cls = [n for n in tree.body if isinstance(n, ast.ClassDef) and n.name == 'Transpiler']
    if len(cls) != 1:
        die('class Transpiler not found')
    init = [n for n in cls[0].body if isinstance(n, ast.FunctionDef) and n.name == '__init__']
    if len(init) != 1:
        die('Transpiler.__init__ not found')
    handlers = None
    installs = 0
    for node in ast.walk(init[0]):
        if isinstance(node, ast.Assign) and len(node.targets) == 1:
            t = node.targets[0]
            if isinstance(t, ast.Attribute) and t.attr == 'handlers' and isinstance(t.value, ast.Name) and t.value.id == 'self':
                if handlers is not None or not isinstance(node.value, ast.Dict):
                    die('self.handlers: expected one dict literal')
                handlers = []
                for k, val in zip(node.value.keys, node.value.values):
                    tag = str_const(k, 'handlers')
                    if not (isinstance(val, ast.Attribute) and isinstance(val.value, ast.Name) and val.value.id == 'self'):
                        die('handler for %r is not self.<method>' % tag)
                    handlers.append((tag, val.attr))
        if isinstance(node, ast.For):
            want = ast.parse('for tag_name in SIMPLE_MATHML_TO_SYMPY_CLASSES:\n'
                             '    self.handlers[tag_name] = self._simple_operator_handler').body[0]
            if ast.dump(node) != ast.dump(want):
                die('unexpected loop in Transpiler.__init__')
            installs += 1
    if handlers is None or installs != 1:
        die('Transpiler.__init__: handler table or simple-table installation loop not recognised')
    if len({t for t, _ in handlers}) != len(handlers):
        die('duplicate key in self.handlers')
    # every self.handlers[...] store in the class must be the one above
    for node in ast.walk(cls[0]):
        if isinstance(node, ast.Subscript) and isinstance(node.ctx, ast.Store) and isinstance(node.value, ast.Attribute) \
                and node.value.attr == 'handlers':
            installs -= 1
    if installs != 0:
        die('self.handlers is modified in a place the translator does not know')

    out = '''(* GENERATED by tools/translate_transpiler.py from /repo/cellmlmanip/parser.py -- do not edit *)
From Coq Require Import List ZArith String.
From Verif Require Import Sexp UnitAlg UStore.
Import ListNotations.
Open Scope string_scope.

(* _SIMPLE_MATHML_TO_SYMPY_CLASSES: MathML tag -> attribute name of the sympy module *)
Definition simple_table : list (name * name) := [
%s
].

(* MATHML_NARY_RELATIONS *)
Definition nary_relations : list name := [%s].

(* MATHML_UNARY_OPERATORS *)
Definition unary_operators : list name := [%s].

(* MATHML_CONTAINERS *)
Definition container_tags : list name := [%s].

(* Transpiler.__init__: self.handlers literal, MathML tag -> method name *)
Definition handler_methods : list (name * name) := [
%s
].
''' % (';\n'.join('  (%s, %s)' % (coq_name(t), coq_name(s)) for t, s in simple),
       '; '.join(coq_name(t) for t in nary),
       '; '.join(coq_name(t) for t in sets['MATHML_UNARY_OPERATORS']),
       '; '.join(coq_name(t) for t in sets['MATHML_CONTAINERS']),
       ';\n'.join('  (%s, %s)' % (coq_name(t), coq_name(m)) for t, m in handlers))
    write_if_changed(os.path.join(COQ, 'Gen', 'TranspileTables_gen.v'), out)


if __name__ == '__main__':
    main()
